#!/bin/bash
# Builds the libFuzzer targets of /verif/fuzz/fuzz against /repo's working tree (offline, stable toolchain, -s none).
set -u
cd /verif/fuzz || exit 1
export CARGO_NET_OFFLINE=true
export CARGO_TERM_COLOR=never
exec cargo fuzz build -s none --target-dir /verif/target/fuzz
