#![no_main]
//! C11, router level: arbitrary Query / Parse / Bind payloads through everything pgcat's query
//! router does with client text (custom command regexes, sharding comments, sqlparser, role and
//! shard inference, Bind parameter extraction), under four router configurations.
//!   byte 0: bits 0-1 configuration, bits 2-3 message kind; the rest is the payload.
//! Inputs are capped with -max_len: a long left-deep operator chain overflows the stack (known
//! finding, judged by the wire stage); this target looks for hangs, aborts and memory blow-up.
use bytes::BufMut;
use libfuzzer_sys::fuzz_target;
use pgcat::config::Role;
use pgcat::sharding::ShardingFunction;
use pgcat::pool::PoolSettings;
use pgcat::query_router::QueryRouter;
use pgverif_fuzz::*;

#[global_allocator]
static A: Counting = Counting;

fn settings(k: u8) -> PoolSettings {
    match k % 4 {
        0 => PoolSettings { query_parser_enabled: false, shards: 3, ..Default::default() },
        1 => PoolSettings { query_parser_enabled: true, query_parser_read_write_splitting: true, primary_reads_enabled: false, default_role: Some(Role::Replica), shards: 1, ..Default::default() },
        2 => PoolSettings {
            query_parser_enabled: true,
            query_parser_read_write_splitting: true,
            primary_reads_enabled: true,
            shards: 5,
            sharding_function: ShardingFunction::PgBigintHash,
            automatic_sharding_key: Some("data.id".to_string()),
            ..Default::default()
        },
        _ => PoolSettings {
            query_parser_enabled: true,
            query_parser_read_write_splitting: false,
            shards: 4,
            sharding_function: ShardingFunction::Sha1,
            automatic_sharding_key: Some("id".to_string()),
            sharding_key_regex: regex::Regex::new(r"/\* sharding_key: (\d+) \*/").ok(),
            shard_id_regex: regex::Regex::new(r"/\* shard_id: (\d+) \*/").ok(),
            regex_search_limit: 1000,
            ..Default::default()
        },
    }
}

fuzz_target!(|data: &[u8]| {
    if data.len() < 2 {
        return;
    }
    static SETUP: std::sync::Once = std::sync::Once::new();
    SETUP.call_once(|| {
        QueryRouter::setup();
    });
    let cfg = data[0] & 3;
    let kind = (data[0] >> 2) & 3;
    let payload = &data[1..];
    let base = alloc_mark();
    let r = guarded(|| {
        let mut qr = QueryRouter::new();
        qr.update_pool_settings(&settings(cfg));
        match kind {
            // simple query
            0 | 1 => {
                let mut body = payload.to_vec();
                body.push(0);
                let m = frame(b'Q', &body);
                if qr.try_execute_command(&m).is_none() {
                    if let Ok(ast) = qr.parse(&m) {
                        let _ = qr.infer(&ast);
                    }
                }
                let _ = (qr.shard(), qr.role());
            }
            // Parse with this text, then a Bind built from the tail
            2 => {
                let cut = payload.len() / 2;
                let mut body = vec![0u8];
                body.extend_from_slice(&payload[..cut]);
                body.push(0);
                body.put_i16(0);
                let m = frame(b'P', &body);
                if let Ok(ast) = qr.parse(&m) {
                    let _ = qr.infer(&ast);
                }
                let b = frame(b'B', &payload[cut..]);
                let _ = qr.infer_shard_from_bind(&b);
            }
            // raw bodies
            _ => {
                let m = frame(b'Q', payload);
                let _ = qr.try_execute_command(&m);
                let _ = qr.parse(&m).map(|ast| qr.infer(&ast));
                let b = frame(b'B', payload);
                let _ = qr.infer_shard_from_bind(&b);
            }
        }
    });
    check_alloc("query router", base, data.len());
    if let Ran::Panicked(_) = r {
        export_panic("router", data);
    }
});
