#![no_main]
//! C11, decoder level: every byte string a client can put on the wire, fed to the framing and
//! message decoders pgcat runs on client input.
//!   byte 0 selects the decoder, the rest is the input.
use bytes::BytesMut;
use libfuzzer_sys::fuzz_target;
use pgcat::messages::{parse_params, parse_startup, read_message, Bind, Close, Describe, Parse};
use pgverif_fuzz::*;

#[global_allocator]
static A: Counting = Counting;

fuzz_target!(|data: &[u8]| {
    if data.is_empty() {
        return;
    }
    let (sel, input) = (data[0] % 8, &data[1..]);
    match sel {
        // ---- framing: a stream of messages, against the reference framer
        0 => {
            let mut stream: &[u8] = input;
            let mut rest: &[u8] = input;
            loop {
                let base = alloc_mark();
                let before = stream.len();
                let r = guarded(|| runtime().block_on(read_message(&mut stream)));
                check_alloc("read_message", base, before);
                match (r, ref_frame(rest)) {
                    // a panic, or a result that differs from the reference framer, desynchronises only the sender's own
                    // stream: not a C11 violation here - the input is handed to the wire stage, which judges the consequences
                    (Ran::Panicked(_), _) => {
                        export_panic("frame", input);
                        break;
                    }
                    (Ran::Done(Ok(b)), Some((_code, total))) => {
                        if b[..] != rest[..total] || before - stream.len() != total {
                            export_panic("frame-mismatch", input);
                            break;
                        }
                        rest = &rest[total..];
                    }
                    (Ran::Done(Ok(_)), None) | (Ran::Done(Err(_)), Some(_)) => {
                        export_panic("frame-mismatch", input);
                        break;
                    }
                    (Ran::Done(Err(_)), None) => break,
                }
            }
        }
        // ---- start-up parameters
        1 | 2 => {
            let base = alloc_mark();
            let b = BytesMut::from(input);
            let r = guarded(|| if sel == 1 { parse_startup(b) } else { parse_params(b) });
            check_alloc("parse_startup", base, input.len());
            // reference: NUL-terminated strings, empty ones skipped, an even number >= 2 of them. A panic or a result that
            // differs from the reference concerns only this client's own log-in: exported for the wire stage, not a violation.
            let well_terminated = input.last() == Some(&0);
            match r {
                Ran::Panicked(_) => export_panic("startup", input),
                Ran::Done(res) => {
                    let toks: Vec<String> = if input.is_empty() || !well_terminated { vec![] } else { input[..input.len() - 1].split(|c| *c == 0).filter(|t| !t.is_empty()).map(|t| String::from_utf8_lossy(t).to_string()).collect() };
                    let mut want = std::collections::HashMap::new();
                    let ok_shape = well_terminated && toks.len() >= 2 && toks.len() % 2 == 0;
                    if ok_shape {
                        for kv in toks.chunks(2) {
                            want.insert(kv[0].clone(), kv[1].clone());
                        }
                    }
                    let want_ok = ok_shape && (sel == 2 || want.contains_key("user"));
                    let same = match res {
                        Ok(got) => want_ok && got == want,
                        Err(_) => !want_ok,
                    };
                    if !same {
                        export_panic("startup-mismatch", input);
                    }
                }
            }
        }
        // ---- typed message bodies; always well framed, as pgcat only hands its decoders what read_message returned
        _ => {
            let (code, body): (u8, &[u8]) = match sel {
                3 => (b'P', input),
                4 => (b'B', input),
                5 => (b'D', input),
                6 => (b'C', input),
                _ => {
                    if input.is_empty() {
                        return;
                    }
                    (b"PBDC"[(input[0] % 4) as usize], &input[1..])
                }
            };
            let msg = frame(code, body);
            let base = alloc_mark();
            let r = guarded(|| match code {
                b'P' => Parse::try_from(&msg).map(|p| {
                    let _ = p.get_hash();
                    let _ = p.anonymous();
                    let _: Result<BytesMut, _> = p.try_into();
                }),
                b'B' => {
                    let _ = Bind::get_name(&msg);
                    let _ = Bind::rename(msg.clone(), "PGCAT_1");
                    Bind::try_from(&msg).map(|b| {
                        let _ = b.anonymous();
                        let _: Result<BytesMut, _> = b.try_into();
                    })
                }
                b'D' => Describe::try_from(&msg).map(|d| {
                    let _ = d.anonymous();
                    let _: Result<BytesMut, _> = d.rename("PGCAT_1").try_into();
                }),
                _ => Close::try_from(&msg).map(|c| {
                    let _ = c.anonymous();
                    let _: Result<BytesMut, _> = c.try_into();
                }),
            });
            check_alloc("message decoder", base, msg.len());
            if let Ran::Panicked(_) = r {
                export_panic(
                    match code {
                        b'P' => "parse",
                        b'B' => "bind",
                        b'D' => "describe",
                        _ => "close",
                    },
                    &msg,
                );
            }
        }
    }
});
