//! Shared machinery of the libFuzzer targets: a counting allocator (peak bytes during the call under
//! test), a panic guard that classifies instead of aborting, and the reference framer.
//!
//! Verdicts of a target (C11 at decoder level): a *panic* inside a decoder only ends the sending
//! client's task in pgcat and is allowed - it is counted in `stats/` and the input is exported to
//! `panics/` for the wire stage. What must never happen: a hang (libFuzzer `-timeout`), an abort
//! (stack overflow, allocation failure), memory use out of proportion to the bytes the client sent
//! (`check_alloc`). Results that differ from the reference framer / start-up parser are exported the
//! same way: they desynchronise the sender's own stream only, and what that does to others is for
//! the wire stage to judge.

use std::alloc::{GlobalAlloc, Layout, System};
use std::sync::atomic::{AtomicUsize, Ordering};
use std::sync::Once;

pub struct Counting;

static CUR: AtomicUsize = AtomicUsize::new(0);
static PEAK: AtomicUsize = AtomicUsize::new(0);

unsafe impl GlobalAlloc for Counting {
    unsafe fn alloc(&self, l: Layout) -> *mut u8 {
        let c = CUR.fetch_add(l.size(), Ordering::Relaxed) + l.size();
        PEAK.fetch_max(c, Ordering::Relaxed);
        System.alloc(l)
    }
    unsafe fn dealloc(&self, p: *mut u8, l: Layout) {
        CUR.fetch_sub(l.size(), Ordering::Relaxed);
        System.dealloc(p, l)
    }
    unsafe fn alloc_zeroed(&self, l: Layout) -> *mut u8 {
        let c = CUR.fetch_add(l.size(), Ordering::Relaxed) + l.size();
        PEAK.fetch_max(c, Ordering::Relaxed);
        System.alloc_zeroed(l)
    }
    unsafe fn realloc(&self, p: *mut u8, l: Layout, new: usize) -> *mut u8 {
        if new >= l.size() {
            let c = CUR.fetch_add(new - l.size(), Ordering::Relaxed) + (new - l.size());
            PEAK.fetch_max(c, Ordering::Relaxed);
        } else {
            CUR.fetch_sub(l.size() - new, Ordering::Relaxed);
        }
        System.realloc(p, l, new)
    }
}

/// Start measuring: returns the baseline.
pub fn alloc_mark() -> usize {
    let c = CUR.load(Ordering::Relaxed);
    PEAK.store(c, Ordering::Relaxed);
    c
}

/// Peak bytes allocated above the baseline since `alloc_mark`.
pub fn alloc_peak_since(base: usize) -> usize {
    PEAK.load(Ordering::Relaxed).saturating_sub(base)
}

/// A decoder may use memory in proportion to what the client sent, never in proportion to a number the client wrote.
pub fn check_alloc(what: &str, base: usize, input_len: usize) {
    let peak = alloc_peak_since(base);
    let bound = (1 << 20) + 64 * input_len;
    if peak > bound {
        oracle_fail(&format!("{}: {} bytes allocated for an input of {} bytes (bound {})", what, peak, input_len, bound));
    }
}

/// Semantic failure: abort the process so that libFuzzer saves the input as a crash artifact.
pub fn oracle_fail(msg: &str) -> ! {
    eprintln!("ORACLE-VIOLATION property=C11 {}", msg);
    std::process::abort()
}

static HOOK: Once = Once::new();

/// libfuzzer-sys installs a panic hook that aborts; the decoders' panics are an allowed outcome here.
pub fn quiet_panics() {
    HOOK.call_once(|| {
        std::panic::set_hook(Box::new(|_| {}));
    });
}

pub enum Ran<T> {
    Done(T),
    Panicked(String),
}

pub fn guarded<T>(f: impl FnOnce() -> T) -> Ran<T> {
    quiet_panics();
    match std::panic::catch_unwind(std::panic::AssertUnwindSafe(f)) {
        Ok(v) => Ran::Done(v),
        Err(e) => {
            let m = if let Some(s) = e.downcast_ref::<&str>() {
                s.to_string()
            } else if let Some(s) = e.downcast_ref::<String>() {
                s.clone()
            } else {
                "panic".to_string()
            };
            Ran::Panicked(m)
        }
    }
}

/// Export an input whose decoding panicked (for the wire stage), at most 64 per message class; only when PGVERIF_EXPORT is set.
pub fn export_panic(class: &str, data: &[u8]) {
    if let Ok(dir) = std::env::var("PGVERIF_EXPORT") {
        let d = format!("{}/{}", dir, class);
        let _ = std::fs::create_dir_all(&d);
        let n = std::fs::read_dir(&d).map(|r| r.count()).unwrap_or(0);
        if n < 64 {
            let mut h: u64 = 0xcbf29ce484222325;
            for b in data {
                h ^= *b as u64;
                h = h.wrapping_mul(0x100000001b3);
            }
            let _ = std::fs::write(format!("{}/{:016x}", d, h), data);
        }
    }
}

/// Reference framer: Some((code, total_len)) when `data` starts with a complete typed message.
pub fn ref_frame(data: &[u8]) -> Option<(u8, usize)> {
    if data.len() < 5 {
        return None;
    }
    let len = i32::from_be_bytes([data[1], data[2], data[3], data[4]]);
    if len < 4 {
        return None;
    }
    let total = 1usize + len as usize;
    if data.len() < total {
        return None;
    }
    Some((data[0], total))
}

pub fn frame(code: u8, body: &[u8]) -> bytes::BytesMut {
    use bytes::BufMut;
    let mut b = bytes::BytesMut::with_capacity(body.len() + 5);
    b.put_u8(code);
    b.put_i32(body.len() as i32 + 4);
    b.put_slice(body);
    b
}

pub fn runtime() -> &'static tokio::runtime::Runtime {
    use std::sync::OnceLock;
    static RT: OnceLock<tokio::runtime::Runtime> = OnceLock::new();
    RT.get_or_init(|| tokio::runtime::Builder::new_current_thread().build().unwrap())
}
