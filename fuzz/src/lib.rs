// intentionally empty (see Cargo.toml)
