//! Spawning the real pgcat binary (built from /repo's working tree) with a generated pgcat.toml.

use serde::{Deserialize, Serialize};
use std::path::{Path, PathBuf};
use std::process::{Child, Command, Stdio};
use std::time::{Duration, Instant};

#[derive(Clone, Debug, Serialize, Deserialize)]
pub struct ServerDef {
    pub host: String,
    pub port: u16,
    pub role: String,
}

#[derive(Clone, Debug, Serialize, Deserialize)]
pub struct MirrorDef {
    pub host: String,
    pub port: u16,
    pub target: usize,
}

#[derive(Clone, Debug, Serialize, Deserialize)]
pub struct ShardDef {
    pub id: String,
    pub database: String,
    pub servers: Vec<ServerDef>,
    #[serde(default)]
    pub mirrors: Vec<MirrorDef>,
}

#[derive(Clone, Debug, Serialize, Deserialize)]
pub struct UserDef {
    pub key: String,
    pub username: String,
    pub password: Option<String>,
    pub pool_size: u32,
    /// raw extra `key = value` TOML lines
    #[serde(default)]
    pub extra: Vec<(String, String)>,
}

#[derive(Clone, Debug, Serialize, Deserialize)]
pub struct PoolDef {
    pub name: String,
    /// raw `key = value` TOML lines (value already TOML-encoded)
    pub settings: Vec<(String, String)>,
    pub users: Vec<UserDef>,
    pub shards: Vec<ShardDef>,
    /// raw TOML appended inside the pool (plugins etc.), already fully qualified
    #[serde(default)]
    pub raw_tail: String,
}

#[derive(Clone, Debug, Serialize, Deserialize)]
pub struct PgcatConfig {
    /// raw `key = value` lines for [general]; host/port/admin credentials are added by the runner
    pub general: Vec<(String, String)>,
    pub pools: Vec<PoolDef>,
    #[serde(default)]
    pub raw_tail: String,
}

pub const ADMIN_USER: &str = "admin_user";
pub const ADMIN_PASS: &str = "admin_pass";

impl PgcatConfig {
    pub fn new() -> PgcatConfig {
        PgcatConfig { general: vec![], pools: vec![], raw_tail: String::new() }
    }

    pub fn set_general(&mut self, k: &str, v: &str) {
        if let Some(e) = self.general.iter_mut().find(|(a, _)| a == k) {
            e.1 = v.to_string();
        } else {
            self.general.push((k.to_string(), v.to_string()));
        }
    }

    pub fn general_has(&self, k: &str) -> bool {
        self.general.iter().any(|(a, _)| a == k)
    }

    pub fn to_toml(&self, port: u16) -> String {
        let mut s = String::new();
        s.push_str("[general]\n");
        s.push_str("host = \"127.0.0.1\"\n");
        s.push_str(&format!("port = {}\n", port));
        let defaults: [(&str, &str); 14] = [
            ("enable_prometheus_exporter", "false"),
            ("connect_timeout", "5000"),
            ("idle_timeout", "600000"),
            ("server_lifetime", "3600000"),
            ("idle_client_in_transaction_timeout", "0"),
            ("healthcheck_timeout", "1000"),
            ("healthcheck_delay", "30000"),
            ("shutdown_timeout", "5000"),
            ("ban_time", "60"),
            ("log_client_connections", "false"),
            ("log_client_disconnections", "false"),
            ("autoreload", "0"),
            ("worker_threads", "2"),
            ("tcp_keepalives_idle", "5"),
        ];
        for (k, v) in defaults {
            if k == "autoreload" {
                continue;
            }
            if !self.general_has(k) {
                s.push_str(&format!("{} = {}\n", k, v));
            }
        }
        if !self.general_has("admin_username") {
            s.push_str(&format!("admin_username = \"{}\"\n", ADMIN_USER));
        }
        if !self.general_has("admin_password") {
            s.push_str(&format!("admin_password = \"{}\"\n", ADMIN_PASS));
        }
        for (k, v) in &self.general {
            s.push_str(&format!("{} = {}\n", k, v));
        }
        s.push('\n');
        for p in &self.pools {
            s.push_str(&format!("[pools.{}]\n", p.name));
            for (k, v) in &p.settings {
                s.push_str(&format!("{} = {}\n", k, v));
            }
            s.push('\n');
            for u in &p.users {
                s.push_str(&format!("[pools.{}.users.{}]\n", p.name, u.key));
                s.push_str(&format!("username = {}\n", toml_str(&u.username)));
                if let Some(pw) = &u.password {
                    s.push_str(&format!("password = {}\n", toml_str(pw)));
                }
                s.push_str(&format!("pool_size = {}\n", u.pool_size));
                for (k, v) in &u.extra {
                    s.push_str(&format!("{} = {}\n", k, v));
                }
                s.push('\n');
            }
            for sh in &p.shards {
                s.push_str(&format!("[pools.{}.shards.{}]\n", p.name, toml_key(&sh.id)));
                s.push_str(&format!("database = {}\n", toml_str(&sh.database)));
                s.push_str("servers = [");
                for (i, sv) in sh.servers.iter().enumerate() {
                    if i > 0 {
                        s.push_str(", ");
                    }
                    s.push_str(&format!("[{}, {}, {}]", toml_str(&sv.host), sv.port, toml_str(&sv.role)));
                }
                s.push_str("]\n");
                if !sh.mirrors.is_empty() {
                    s.push_str("mirrors = [");
                    for (i, m) in sh.mirrors.iter().enumerate() {
                        if i > 0 {
                            s.push_str(", ");
                        }
                        s.push_str(&format!("[{}, {}, {}]", toml_str(&m.host), m.port, m.target));
                    }
                    s.push_str("]\n");
                }
                s.push('\n');
            }
            s.push_str(&p.raw_tail);
            s.push('\n');
        }
        s.push_str(&self.raw_tail);
        s
    }
}

pub fn toml_str(s: &str) -> String {
    let mut o = String::from("\"");
    for c in s.chars() {
        match c {
            '"' => o.push_str("\\\""),
            '\\' => o.push_str("\\\\"),
            '\n' => o.push_str("\\n"),
            '\t' => o.push_str("\\t"),
            c if (c as u32) < 0x20 => o.push_str(&format!("\\u{:04x}", c as u32)),
            c => o.push(c),
        }
    }
    o.push('"');
    o
}

pub fn toml_key(s: &str) -> String {
    if !s.is_empty() && s.chars().all(|c| c.is_ascii_alphanumeric() || c == '_' || c == '-') {
        s.to_string()
    } else {
        toml_str(s)
    }
}

pub fn simple_pool(name: &str, user: &str, password: &str, pool_size: u32, servers: Vec<ServerDef>) -> PoolDef {
    PoolDef {
        name: name.to_string(),
        settings: vec![("pool_mode".into(), "\"transaction\"".into())],
        users: vec![UserDef {
            key: "0".into(),
            username: user.into(),
            password: Some(password.into()),
            pool_size,
            extra: vec![],
        }],
        shards: vec![ShardDef { id: "0".into(), database: format!("{}_db", name), servers, mirrors: vec![] }],
        raw_tail: String::new(),
    }
}

impl PoolDef {
    pub fn set(&mut self, k: &str, v: &str) {
        if let Some(e) = self.settings.iter_mut().find(|(a, _)| a == k) {
            e.1 = v.to_string();
        } else {
            self.settings.push((k.to_string(), v.to_string()));
        }
    }
}

// ---------------------------------------------------------------------------------- process

pub fn pgcat_bin() -> PathBuf {
    match std::env::var("PGVERIF_PGCAT_BIN") {
        Ok(p) => PathBuf::from(p),
        Err(_) => PathBuf::from("/verif/target/repo/release/pgcat"),
    }
}

pub struct Pgcat {
    pub child: Option<Child>,
    pub port: u16,
    pub dir: PathBuf,
    pub config_path: PathBuf,
    pub stderr_path: PathBuf,
}

/// Serialises the moments at which this process holds a throw-away listener (port_free) with the moments at which any worker
/// thread forks a child: a child forked while another worker's probe listener is open keeps a copy of that listener until it
/// execs, and the other worker's "is pgcat listening yet?" probe then connects to that ghost instead of to its own pgcat
/// (seen under CPU load as ConnectionReset / Connection refused on the first login, and as "invalid configuration accepted").
pub static SPAWN_LOCK: std::sync::Mutex<()> = std::sync::Mutex::new(());

fn port_free(port: u16) -> bool {
    let _g = SPAWN_LOCK.lock().unwrap_or_else(|e| e.into_inner());
    std::net::TcpListener::bind(("127.0.0.1", port)).is_ok()
}

/// Per-worker port allocator: worker w owns [21000 + w*400, +400).
pub struct PortAlloc {
    base: u16,
    next: u16,
}

impl PortAlloc {
    pub fn new(worker: usize) -> PortAlloc {
        PortAlloc { base: 21000 + (worker as u16) * 400, next: 0 }
    }
    pub fn next(&mut self) -> u16 {
        for _ in 0..400 {
            let p = self.base + self.next;
            self.next = (self.next + 1) % 400;
            if port_free(p) {
                return p;
            }
        }
        panic!("no free port in worker range");
    }
}

/// Does process `pid` own a socket in LISTEN state on 127.0.0.1:`port` (or 0.0.0.0:`port`)?
fn child_listens(pid: i32, port: u16) -> bool {
    let tcp = match std::fs::read_to_string("/proc/net/tcp") {
        Ok(t) => t,
        Err(_) => return std::net::TcpStream::connect(("127.0.0.1", port)).is_ok(),
    };
    let want = format!(":{:04X}", port);
    let mut inodes: Vec<String> = vec![];
    for line in tcp.lines().skip(1) {
        let f: Vec<&str> = line.split_whitespace().collect();
        if f.len() > 9 && f[1].ends_with(&want) && f[3] == "0A" {
            inodes.push(format!("socket:[{}]", f[9]));
        }
    }
    if inodes.is_empty() {
        return false;
    }
    if let Ok(rd) = std::fs::read_dir(format!("/proc/{}/fd", pid)) {
        for e in rd.flatten() {
            if let Ok(t) = std::fs::read_link(e.path()) {
                if inodes.iter().any(|i| t.to_string_lossy() == *i) {
                    return true;
                }
            }
        }
    }
    false
}

impl Pgcat {
    pub async fn start(dir: &Path, port: u16, toml: &str, env: &[(&str, String)]) -> Result<Pgcat, String> {
        std::fs::create_dir_all(dir).map_err(|e| e.to_string())?;
        let config_path = dir.join("pgcat.toml");
        std::fs::write(&config_path, toml).map_err(|e| e.to_string())?;
        let stderr_path = dir.join("pgcat.stderr");
        let errf = std::fs::File::create(&stderr_path).map_err(|e| e.to_string())?;
        let outf = errf.try_clone().map_err(|e| e.to_string())?;
        let mut cmd = Command::new(pgcat_bin());
        cmd.arg(&config_path)
            .arg("--log-level")
            .arg(std::env::var("PGVERIF_PGCAT_LOG").unwrap_or_else(|_| "warn".into()))
            .arg("--no-color")
            .current_dir(dir)
            .stdin(Stdio::null())
            .stdout(Stdio::from(outf))
            .stderr(Stdio::from(errf));
        for (k, v) in env {
            if *k == "PGVERIF_RLIMIT_AS_MB" {
                // address-space limit for the pooler process (stands in for a container memory limit)
                let bytes: u64 = v.parse::<u64>().unwrap_or(0) * 1024 * 1024;
                if bytes > 0 {
                    use std::os::unix::process::CommandExt;
                    unsafe {
                        cmd.pre_exec(move || {
                            let lim = libc::rlimit { rlim_cur: bytes, rlim_max: bytes };
                            if libc::setrlimit(libc::RLIMIT_AS, &lim) != 0 {
                                return Err(std::io::Error::last_os_error());
                            }
                            Ok(())
                        });
                    }
                }
                continue;
            }
            cmd.env(k, v);
        }
        // (std's spawn returns only after the child has exec'd, so the lock covers the whole fork..exec window)
        let child = {
            let _g = SPAWN_LOCK.lock().unwrap_or_else(|e| e.into_inner());
            cmd.spawn().map_err(|e| format!("spawn pgcat: {}", e))?
        };
        let mut p = Pgcat { child: Some(child), port, dir: dir.to_path_buf(), config_path, stderr_path };
        let deadline = Instant::now() + Duration::from_secs(10);
        loop {
            if let Some(st) = p.try_exit() {
                return Err(format!("pgcat exited during startup: {:?}; stderr: {}", st, p.stderr_tail(2000)));
            }
            // "listening" = the LISTEN socket on our port belongs to *this* child. A bare connect() is not enough: under load
            // it has been seen to succeed against a listener that was not the child's (the child was still parsing - or
            // rejecting - its configuration), after which the first real client was reset or refused.
            if child_listens(p.pid(), port) {
                return Ok(p);
            }
            if Instant::now() > deadline {
                p.kill();
                return Err("pgcat did not start listening within 10 s".into());
            }
            tokio::time::sleep(Duration::from_millis(2)).await;
        }
    }

    pub fn addr(&self) -> String {
        format!("127.0.0.1:{}", self.port)
    }

    pub fn pid(&self) -> i32 {
        self.child.as_ref().map(|c| c.id() as i32).unwrap_or(0)
    }

    pub fn signal(&self, sig: i32) {
        if let Some(c) = &self.child {
            unsafe {
                libc::kill(c.id() as i32, sig);
            }
        }
    }

    /// Some(exit code) if the process has exited (code -1 when killed by a signal).
    pub fn try_exit(&mut self) -> Option<i32> {
        match self.child.as_mut() {
            None => Some(-2),
            Some(c) => match c.try_wait() {
                Ok(Some(st)) => Some(st.code().unwrap_or(-1)),
                _ => None,
            },
        }
    }

    pub async fn wait_exit(&mut self, timeout: Duration) -> Option<i32> {
        let deadline = Instant::now() + timeout;
        loop {
            if let Some(c) = self.try_exit() {
                return Some(c);
            }
            if Instant::now() > deadline {
                return None;
            }
            tokio::time::sleep(Duration::from_millis(5)).await;
        }
    }

    pub fn alive(&mut self) -> bool {
        self.try_exit().is_none()
    }

    pub fn kill(&mut self) {
        if let Some(mut c) = self.child.take() {
            let _ = c.kill();
            let _ = c.wait();
        }
    }

    pub fn write_config(&self, toml: &str) {
        let tmp = self.dir.join("pgcat.toml.tmp");
        let _ = std::fs::write(&tmp, toml);
        let _ = std::fs::rename(&tmp, &self.config_path);
    }

    pub fn stderr_text(&self) -> String {
        std::fs::read_to_string(&self.stderr_path).unwrap_or_default()
    }

    pub fn stderr_tail(&self, n: usize) -> String {
        let t = self.stderr_text();
        let start = t.len().saturating_sub(n);
        let mut s = start;
        while s < t.len() && !t.is_char_boundary(s) {
            s += 1;
        }
        t[s..].to_string()
    }
}

impl Drop for Pgcat {
    fn drop(&mut self) {
        self.kill();
    }
}
