//! Wire-engine toolkit: mock cluster + real pgcat process + scripted clients for one case.

use crate::cli::{AuthOutcome, Cli, Password, ReadEnd};
use crate::engine::WorkerCtx;
use crate::mock::{Auth, Event, EvKind, MockServer, ServerCfg, Shared};
use crate::pgc::{self, Pgcat, PgcatConfig};
use crate::proto::{self, Msg};
use std::collections::HashMap;
use std::sync::Arc;
use std::time::Duration;

pub const T_REPLY: Duration = Duration::from_secs(6);

#[derive(Clone, Debug)]
pub struct BackendSpec {
    pub ip: String,
    pub label: String,
    pub auth: Auth,
    pub auth_query: HashMap<String, String>,
}

impl BackendSpec {
    pub fn trust(ip: &str, label: &str) -> BackendSpec {
        BackendSpec { ip: ip.into(), label: label.into(), auth: Auth::Trust, auth_query: HashMap::new() }
    }
}

pub struct Env {
    pub shared: Arc<Shared>,
    pub mocks: Vec<MockServer>,
    pub pg: Pgcat,
    pub config: PgcatConfig,
}

/// Run an async case body on a fresh single-threaded runtime (dropped afterwards, which cancels
/// every mock/session task of the case).
pub fn run_async<F, T>(f: F) -> T
where
    F: std::future::Future<Output = T>,
{
    let rt = tokio::runtime::Builder::new_current_thread().enable_all().build().unwrap();
    let out = rt.block_on(f);
    rt.shutdown_timeout(Duration::from_millis(50));
    out
}

pub async fn start_mocks(specs: &[BackendSpec]) -> Result<(Arc<Shared>, Vec<MockServer>), String> {
    let shared = Shared::new();
    let mut mocks = vec![];
    for (i, s) in specs.iter().enumerate() {
        let cfg = ServerCfg { ip: s.ip.clone(), label: s.label.clone(), auth: s.auth.clone(), auth_query: std::sync::Mutex::new(s.auth_query.clone()), failed_once: Default::default() };
        mocks.push(MockServer::start(i, cfg, shared.clone()).await.map_err(|e| format!("mock bind {}: {}", s.ip, e))?);
    }
    Ok((shared, mocks))
}

impl Env {
    /// Start mocks, build the config from them, start pgcat.
    pub async fn start<F>(ctx: &mut WorkerCtx, specs: &[BackendSpec], build: F) -> Result<Env, String>
    where
        F: FnOnce(&[MockServer]) -> PgcatConfig,
    {
        let (shared, mocks) = start_mocks(specs).await?;
        let config = build(&mocks);
        let port = ctx.ports.next();
        let toml = config.to_toml(port);
        let dir = ctx.dir.join(format!("case{}", ctx.case_no % 4));
        let pg = Pgcat::start(&dir, port, &toml, &[]).await?;
        Ok(Env { shared, mocks, pg, config })
    }

    pub async fn start_with_env<F>(ctx: &mut WorkerCtx, specs: &[BackendSpec], env: &[(&str, String)], build: F) -> Result<Env, String>
    where
        F: FnOnce(&[MockServer]) -> PgcatConfig,
    {
        let (shared, mocks) = start_mocks(specs).await?;
        let config = build(&mocks);
        let port = ctx.ports.next();
        let toml = config.to_toml(port);
        let dir = ctx.dir.join(format!("case{}", ctx.case_no % 4));
        let pg = Pgcat::start(&dir, port, &toml, env).await?;
        Ok(Env { shared, mocks, pg, config })
    }

    pub fn addr(&self) -> String {
        self.pg.addr()
    }

    /// Connect and authenticate a client; Err carries the reason.
    pub async fn client(&self, id: u32, user: &str, db: &str, password: &str, extra: &[(&str, &str)]) -> Result<Cli, String> {
        self.client_tls(id, user, db, password, extra, false).await
    }

    pub async fn client_tls(&self, id: u32, user: &str, db: &str, password: &str, extra: &[(&str, &str)], tls: bool) -> Result<Cli, String> {
        let mut c = Cli::connect(id, &self.addr(), tls).await.map_err(|e| format!("connect: {}", e))?;
        match c.startup(user, db, extra, Password::Md5(user, password)).await {
            AuthOutcome::Ok => Ok(c),
            o => Err(format!("startup failed: {:?} ({})", o, c.last_io)),
        }
    }

    pub async fn admin(&self) -> Result<Cli, String> {
        self.client(9999, pgc::ADMIN_USER, "pgcat", pgc::ADMIN_PASS, &[]).await
    }

    pub fn log(&self) -> Vec<Event> {
        self.shared.snapshot()
    }

    pub async fn finish(mut self) {
        if std::env::var("PGVERIF_DUMP").is_ok() {
            dump_log(&self.log());
            eprintln!("--- pgcat stderr ---\n{}", self.pg.stderr_tail(6000));
        }
        self.pg.kill();
        self.shared.stop();
    }

    pub fn mock_by_label(&self, label: &str) -> Option<&MockServer> {
        self.mocks.iter().find(|m| m.label == label)
    }

    /// "panicked at" lines in pgcat's stderr
    pub fn panics(&self) -> Vec<String> {
        self.pg.stderr_text().lines().filter(|l| l.contains("panicked at")).map(|s| s.to_string()).collect()
    }
}

/// Run an admin query, return rows as name->value maps (None when the reply is not a row set).
pub async fn admin_query(c: &mut Cli, sql: &str) -> Result<Vec<HashMap<String, String>>, String> {
    let (msgs, end) = c.simple(sql, T_REPLY).await;
    if !matches!(end, ReadEnd::Ready(_)) {
        return Err(format!("admin `{}`: {:?}", sql, end));
    }
    let errs = crate::cli::errors(&msgs);
    if !errs.is_empty() {
        return Err(format!("admin `{}`: error {:?}", sql, errs));
    }
    let mut cols: Vec<String> = vec![];
    let mut rows = vec![];
    for m in &msgs {
        match m.code {
            b'T' => {
                cols = row_desc_names(m);
            }
            b'D' => {
                let vals = proto::data_row_cols(&m.body).map_err(|e| e.to_string())?;
                let mut r = HashMap::new();
                for (i, v) in vals.into_iter().enumerate() {
                    let name = cols.get(i).cloned().unwrap_or_else(|| format!("col{}", i));
                    r.insert(name, v.map(|b| String::from_utf8_lossy(&b).to_string()).unwrap_or_default());
                }
                rows.push(r);
            }
            _ => {}
        }
    }
    Ok(rows)
}

pub fn row_desc_names(m: &Msg) -> Vec<String> {
    let b = &m.body;
    if b.len() < 2 {
        return vec![];
    }
    let n = i16::from_be_bytes([b[0], b[1]]);
    let mut i = 2;
    let mut out = vec![];
    for _ in 0..n {
        match proto::read_cstr(b, i) {
            Some((s, nx)) => {
                out.push(s);
                i = nx + 18;
            }
            None => break,
        }
    }
    out
}

/// Rx events (frontend messages) of the log, in order.
pub fn rx_events(log: &[Event]) -> Vec<&Event> {
    log.iter().filter(|e| matches!(e.kind, EvKind::Rx { .. })).collect()
}

/// A reply is "well formed" when it consists of whole messages and ends with ReadyForQuery.
pub fn well_formed_ready(msgs: &[Msg], end: &ReadEnd) -> bool {
    matches!(end, ReadEnd::Ready(_)) && msgs.last().map(|m| m.code == b'Z' && m.body.len() == 1).unwrap_or(false)
}

pub fn dump_log(log: &[Event]) {
    for e in log {
        let d = match &e.kind {
            EvKind::Open { user, database, .. } => format!("OPEN user={} db={}", user, database),
            EvKind::AuthFail => "AUTHFAIL".into(),
            EvKind::Cancel { pid, key } => format!("CANCEL pid={} key={}", pid, key),
            EvKind::Rx { code, tags, sql, own, snap, raw } => format!(
                "RX '{}' len={} tags={:?} own={} txn={} copy={} batch={} sql={:?}",
                *code as char,
                raw.len(),
                tags.iter().map(|t| t.short()).collect::<Vec<_>>(),
                own,
                snap.txn as char,
                snap.copy,
                snap.batch_open,
                sql.as_ref().map(|s| s.chars().take(90).collect::<String>())
            ),
            EvKind::Tx { bytes, for_seq } => format!(
                "TX {} bytes for seq {} codes={}",
                bytes.len(),
                for_seq,
                proto::split_all(bytes).map(|(m, _)| m.iter().map(|x| x.code as char).take(30).collect::<String>()).unwrap_or_default()
            ),
            EvKind::Exec { tag, stmt_name, sql, .. } => format!("EXEC {:?} name={:?} sql={:?}", tag.map(|t| t.short()), stmt_name, sql.chars().take(60).collect::<String>()),
            EvKind::ProtoErr { code, tag } => format!("PROTOERR {} {:?}", code, tag.map(|t| t.short())),
            EvKind::Close { by_terminate } => format!("CLOSE terminate={}", by_terminate),
            EvKind::Ctl(s) => format!("CTL {}", s),
        };
        eprintln!("{:>5} {:>8}us srv={} conn={} {}", e.seq, e.t_us, if e.server == usize::MAX { -1 } else { e.server as i64 }, e.conn, d);
    }
}

/// Measures how late the harness' own (single-threaded) runtime runs its timers. Latency oracles subtract the lag observed
/// during a request, so that time the *harness* spent busy (parsing megabytes in a mock backend, a starved CPU) is not blamed
/// on the pooler.
pub struct LagMonitor {
    samples: Arc<std::sync::Mutex<Vec<(u64, u64)>>>,
    stop: Arc<std::sync::atomic::AtomicBool>,
}

impl LagMonitor {
    pub fn start(t0: std::time::Instant) -> LagMonitor {
        let samples: Arc<std::sync::Mutex<Vec<(u64, u64)>>> = Arc::new(std::sync::Mutex::new(vec![]));
        let stop = Arc::new(std::sync::atomic::AtomicBool::new(false));
        let (s2, st2) = (samples.clone(), stop.clone());
        tokio::spawn(async move {
            let tick = std::time::Duration::from_millis(4);
            while !st2.load(std::sync::atomic::Ordering::Relaxed) {
                let a = std::time::Instant::now();
                tokio::time::sleep(tick).await;
                let late = a.elapsed().saturating_sub(tick);
                if late.as_micros() > 1500 {
                    s2.lock().unwrap().push((t0.elapsed().as_micros() as u64, late.as_micros() as u64));
                }
            }
        });
        LagMonitor { samples, stop }
    }
    /// total lateness (ms) of the timer ticks that completed between the two instants (µs since t0), plus one tick after
    pub fn lag_ms_between(&self, from_us: u64, to_us: u64) -> u64 {
        self.samples.lock().unwrap().iter().filter(|(t, _)| *t >= from_us && *t <= to_us + 50_000).map(|(_, l)| *l).sum::<u64>() / 1000
    }
    pub fn stop(&self) {
        self.stop.store(true, std::sync::atomic::Ordering::Relaxed);
    }
}
