//! Independent transcription of PostgreSQL's hash partitioning for a single bigint key:
//!   hashint8extended(val, seed)            (src/backend/access/hash/hashfunc.c)
//!   hash_bytes_uint32_extended(k, seed)    (src/common/hashfn.c)
//!   compute_partition_hash_value / hash_combine64 (src/backend/partitioning/partbounds.c,
//!                                                  src/include/common/hashfn.h)
//! with HASH_PARTITION_SEED = 0x7A5B22367996DCFD (src/include/catalog/partition.h).
//! Validated at start-up against vectors produced by a real PostgreSQL (MODULUS 5, ids 1..), as
//! recorded in the repository's tests/sharding/partition_hash_test_setup.sql expectations.

use sha1::{Digest, Sha1};

pub const HASH_PARTITION_SEED: u64 = 0x7A5B_2236_7996_DCFD;

#[inline(always)]
fn rotl(x: u32, k: u32) -> u32 {
    x.rotate_left(k)
}

/// hash_bytes_uint32_extended
pub fn hash_uint32_extended(k: u32, seed: u64) -> u64 {
    let init: u32 = 0x9e37_79b9u32.wrapping_add(4).wrapping_add(3_923_095);
    let mut s = [init, init, init]; // a, b, c
    if seed != 0 {
        s[0] = s[0].wrapping_add((seed >> 32) as u32);
        s[1] = s[1].wrapping_add(seed as u32);
        // mix(a,b,c)
        let steps: [(usize, usize, usize, u32); 6] =
            [(0, 2, 1, 4), (1, 0, 2, 6), (2, 1, 0, 8), (0, 2, 1, 16), (1, 0, 2, 19), (2, 1, 0, 4)];
        for (x, y, z, r) in steps {
            // x -= y; x ^= rot(y, r); y += z;
            s[x] = s[x].wrapping_sub(s[y]);
            s[x] ^= rotl(s[y], r);
            s[y] = s[y].wrapping_add(s[z]);
        }
    }
    s[0] = s[0].wrapping_add(k);
    // final(a,b,c)
    let fin: [(usize, usize, u32); 7] = [(2, 1, 14), (0, 2, 11), (1, 0, 25), (2, 1, 16), (0, 2, 4), (1, 0, 14), (2, 1, 24)];
    for (x, y, r) in fin {
        // x ^= y; x -= rot(y, r);
        s[x] ^= s[y];
        s[x] = s[x].wrapping_sub(rotl(s[y], r));
    }
    ((s[1] as u64) << 32) | s[2] as u64
}

/// the 32-bit word hashint8extended feeds to the uint32 hash
pub fn fold_int8(val: i64) -> u32 {
    let lo = val as u32;
    let hi = ((val as u64) >> 32) as u32;
    if val >= 0 {
        lo ^ hi
    } else {
        lo ^ !hi
    }
}

pub fn hashint8extended(val: i64, seed: u64) -> u64 {
    hash_uint32_extended(fold_int8(val), seed)
}

pub fn hash_combine64(a: u64, b: u64) -> u64 {
    a ^ (b.wrapping_add(0x49a0_f4dd_15e5_a8e3).wrapping_add(a << 54).wrapping_add(a >> 7))
}

/// row hash PostgreSQL computes for a one-column bigint hash partition key
pub fn partition_hash(val: i64) -> u64 {
    hash_combine64(0, hashint8extended(val, HASH_PARTITION_SEED))
}

pub fn partition_hash_of_word(word: u32) -> u64 {
    hash_combine64(0, hash_uint32_extended(word, HASH_PARTITION_SEED))
}

pub fn pg_partition(val: i64, modulus: u64) -> u64 {
    partition_hash(val) % modulus
}

/// Documented SHA1 rule: decimal string -> SHA-1 -> last 8 hex digits as integer -> mod n.
pub fn sha1_shard(val: i64, n: u64) -> u64 {
    let mut h = Sha1::new();
    h.update(val.to_string().as_bytes());
    let d = h.finalize();
    let tail = &d[d.len() - 4..];
    let x = u32::from_be_bytes([tail[0], tail[1], tail[2], tail[3]]) as u64;
    x % n
}

/// Real-PostgreSQL vectors: first ten ids (ascending) in each of the five partitions of
/// `PARTITION BY HASH (id)` MODULUS 5 after inserting 1..500.
pub const PG_VECTORS_MOD5: [[i64; 10]; 5] = [
    [1, 4, 5, 14, 19, 39, 40, 46, 47, 53],
    [2, 3, 11, 17, 21, 23, 30, 49, 51, 54],
    [6, 7, 15, 16, 18, 20, 25, 28, 34, 35],
    [8, 12, 13, 22, 29, 31, 33, 36, 41, 43],
    [9, 10, 24, 26, 27, 32, 37, 38, 42, 45],
];

/// Self-test of the reference against the PostgreSQL vectors; Err describes the mismatch.
pub fn selftest() -> Result<(), String> {
    for (shard, ids) in PG_VECTORS_MOD5.iter().enumerate() {
        for id in ids {
            let got = pg_partition(*id, 5);
            if got != shard as u64 {
                return Err(format!("reference hash: id {} -> {}, PostgreSQL says {}", id, got, shard));
            }
        }
        // "first ten ascending": every id below the tenth that is not listed is NOT in this shard
        let last = ids[9];
        for id in 1..last {
            if !ids.contains(&id) && pg_partition(id, 5) == shard as u64 {
                return Err(format!("reference hash: id {} lands in shard {} but PostgreSQL did not list it", id, shard));
            }
        }
    }
    // SHA1 vectors documented in the repository (12 shards, ids 0..19)
    let sha = [4u64, 7, 8, 3, 6, 0, 0, 10, 3, 11, 1, 7, 4, 4, 11, 2, 5, 0, 8, 3];
    for (i, s) in sha.iter().enumerate() {
        if sha1_shard(i as i64, 12) != *s {
            return Err(format!("reference sha1: id {} -> {}, documented {}", i, sha1_shard(i as i64, 12), s));
        }
    }
    Ok(())
}
