//! Client programs: generated request shapes shared by the wire properties, their rendering to
//! protocol messages (with harness tags and reply directives) and their execution.

use crate::cli::{Cli, ReadEnd};
use crate::proto::{self, Msg};
use crate::sqllex::Tag;
use proptest::prelude::*;
use serde::{Deserialize, Serialize};
use std::time::Duration;

#[derive(Clone, Debug, Serialize, Deserialize, PartialEq)]
pub enum Sk {
    Select,
    Insert,
    Update,
    Begin,
    Commit,
    Rollback,
    /// SET <name> TO '<value>'
    Set(String, String),
    /// SET LOCAL
    SetLocal(String, String),
    SetRole(String),
    /// SQL-level PREPARE <name> AS SELECT 1
    Prepare(String),
    /// arbitrary statement text (tag and directive are still appended)
    Raw(String),
}

#[derive(Clone, Debug, Serialize, Deserialize, PartialEq)]
pub struct St {
    pub kind: Sk,
    pub rows: u16,
    /// server-side delay before the reply of the request containing this statement
    pub delay_ms: u16,
    /// fail this statement (ErrorResponse) after this many rows
    pub err_at: Option<u16>,
    /// extra directive text (already in `k=v` form)
    pub extra: String,
}

impl St {
    pub fn new(kind: Sk) -> St {
        St { kind, rows: 1, delay_ms: 0, err_at: None, extra: String::new() }
    }
    pub fn rows(mut self, n: u16) -> St {
        self.rows = n;
        self
    }
    pub fn delay(mut self, ms: u16) -> St {
        self.delay_ms = ms;
        self
    }
    pub fn sql(&self, tag: Tag) -> String {
        let body = match &self.kind {
            Sk::Select => "SELECT v FROM t".to_string(),
            Sk::Insert => "INSERT INTO t (v) VALUES (1)".to_string(),
            Sk::Update => "UPDATE t SET v = 2".to_string(),
            Sk::Begin => "BEGIN".to_string(),
            Sk::Commit => "COMMIT".to_string(),
            Sk::Rollback => "ROLLBACK".to_string(),
            Sk::Set(k, v) => format!("SET {} TO '{}'", k, v.replace('\'', "''")),
            Sk::SetLocal(k, v) => format!("SET LOCAL {} TO '{}'", k, v.replace('\'', "''")),
            Sk::SetRole(r) => format!("SET ROLE {}", r),
            Sk::Prepare(n) => format!("PREPARE {} AS SELECT 1", n),
            Sk::Raw(s) => s.clone(),
        };
        let mut d = String::new();
        if self.rows != 1 {
            d.push_str(&format!(" rows={}", self.rows));
        }
        if self.delay_ms > 0 {
            d.push_str(&format!(" delay={}", self.delay_ms));
        }
        if let Some(e) = self.err_at {
            d.push_str(&format!(" err={}", e));
        }
        if !self.extra.is_empty() {
            d.push(' ');
            d.push_str(&self.extra);
        }
        if d.is_empty() {
            format!("{} {}", tag.render(), body)
        } else {
            format!("{} {} /*@{} */", tag.render(), body, d)
        }
    }
    pub fn returns_rows(&self) -> bool {
        matches!(self.kind, Sk::Select) || matches!(&self.kind, Sk::Raw(s) if s.trim_start().to_ascii_uppercase().starts_with("SELECT"))
    }
}

#[derive(Clone, Debug, Serialize, Deserialize, PartialEq)]
pub enum Ext {
    /// Parse(name, statement, parameter type oids)
    Parse(String, St, Vec<i32>),
    /// Bind(portal, statement name)
    Bind(String, String),
    DescribeS(String),
    DescribeP(String),
    /// Execute(portal, max rows)
    Execute(String, i32),
    CloseS(String),
    CloseP(String),
}

#[derive(Clone, Debug, Serialize, Deserialize, PartialEq)]
pub enum Req {
    /// simple query with 1..n statements
    Simple(Vec<St>),
    /// extended batch, terminated by Sync
    Batch(Vec<Ext>),
    /// COPY t FROM STDIN with these many CopyData chunks, finished by CopyDone (or CopyFail)
    CopyIn { chunks: u8, chunk_len: u16, fail: bool },
    /// COPY t TO STDOUT producing n rows
    CopyOut { rows: u16 },
}

/// What was sent for one request and what came back.
#[derive(Clone, Debug)]
pub struct Exchange {
    pub tags: Vec<Tag>,
    /// tags whose statement is expected to return DataRows to the client (in order)
    pub row_tags: Vec<(Tag, u16)>,
    pub sent: Vec<u8>,
    pub reply: Vec<Msg>,
    pub end: ReadEnd,
    pub t_send_us: u64,
    pub t_done_us: u64,
}

pub const T_LONG: Duration = Duration::from_secs(8);

/// Render a request into wire bytes, allocating tags from the client.
pub fn render(cli: &mut Cli, req: &Req) -> (Vec<u8>, Vec<Tag>, Vec<(Tag, u16)>) {
    let mut tags = vec![];
    let mut row_tags = vec![];
    let bytes = match req {
        Req::Simple(stmts) => {
            let mut parts = vec![];
            for s in stmts {
                let t = cli.tag();
                tags.push(t);
                if s.returns_rows() {
                    row_tags.push((t, s.err_at.map(|e| e.min(s.rows)).unwrap_or(s.rows)));
                }
                parts.push(s.sql(t));
            }
            proto::query(&parts.join("; "))
        }
        Req::Batch(msgs) => {
            let mut out = vec![];
            let mut stmts: std::collections::HashMap<String, (Tag, St)> = Default::default();
            let mut portals: std::collections::HashMap<String, (Tag, St, u16)> = Default::default();
            for m in msgs {
                match m {
                    Ext::Parse(name, st, types) => {
                        let t = cli.tag();
                        tags.push(t);
                        stmts.insert(name.clone(), (t, st.clone()));
                        out.extend_from_slice(&proto::parse(name, &st.sql(t), types));
                    }
                    Ext::Bind(portal, stmt) => {
                        if let Some((t, st)) = stmts.get(stmt) {
                            portals.insert(portal.clone(), (*t, st.clone(), 0));
                        }
                        out.extend_from_slice(&proto::bind(portal, stmt, &[], &[], &[]))
                    }
                    Ext::DescribeS(n) => out.extend_from_slice(&proto::describe(b'S', n)),
                    Ext::DescribeP(n) => out.extend_from_slice(&proto::describe(b'P', n)),
                    Ext::Execute(p, max) => {
                        if let Some((t, st, sent)) = portals.get_mut(p) {
                            if st.returns_rows() {
                                let total = st.err_at.map(|e| e.min(st.rows)).unwrap_or(st.rows);
                                let left = total.saturating_sub(*sent);
                                let n = if *max > 0 && st.extra.contains("suspend") { left.min(*max as u16) } else { left };
                                // consecutive Executes of one portal continue the row numbering
                                if let Some(last) = row_tags.last_mut().filter(|(lt, _): &&mut (Tag, u16)| lt == t) {
                                    last.1 += n;
                                } else {
                                    row_tags.push((*t, n));
                                }
                                *sent += n;
                            }
                        }
                        out.extend_from_slice(&proto::execute(p, *max))
                    }
                    Ext::CloseS(n) => out.extend_from_slice(&proto::close(b'S', n)),
                    Ext::CloseP(n) => out.extend_from_slice(&proto::close(b'P', n)),
                }
            }
            out.extend_from_slice(&proto::sync());
            out
        }
        Req::CopyIn { .. } => {
            let t = cli.tag();
            tags.push(t);
            proto::query(&format!("{} COPY t FROM STDIN", t.render()))
        }
        Req::CopyOut { rows } => {
            let t = cli.tag();
            tags.push(t);
            row_tags.push((t, *rows));
            proto::query(&format!("{} COPY t TO STDOUT /*@ copyout={}:24 */", t.render(), rows))
        }
    };
    (bytes, tags, row_tags)
}

/// Execute one request/response interaction.
pub async fn run_req(cli: &mut Cli, req: &Req, t0: std::time::Instant) -> Exchange {
    let (bytes, tags, row_tags) = render(cli, req);
    let t_send_us = t0.elapsed().as_micros() as u64;
    let mut sent = bytes.clone();
    let mut reply: Vec<Msg> = vec![];
    let end;
    if !cli.send(&bytes).await {
        return Exchange { tags, row_tags, sent, reply, end: ReadEnd::Closed, t_send_us, t_done_us: t0.elapsed().as_micros() as u64 };
    }
    match req {
        Req::CopyIn { chunks, chunk_len, fail } => {
            let (m, e) = cli.read_until_code(&[b'G', b'Z'], T_LONG).await;
            reply.extend(m);
            if e == ReadEnd::Code(b'G') {
                let tag = tags[0];
                let mut data = vec![];
                for i in 0..*chunks {
                    let mut row = format!("{}:chunk{}", tag.short(), i).into_bytes();
                    row.resize((*chunk_len as usize).max(row.len()), b'z');
                    row.push(b'\n');
                    data.extend_from_slice(&proto::copy_data(&row));
                }
                if *fail {
                    data.extend_from_slice(&proto::copy_fail("client gave up"));
                } else {
                    data.extend_from_slice(&proto::copy_done());
                }
                sent.extend_from_slice(&data);
                if !cli.send(&data).await {
                    end = ReadEnd::Closed;
                } else {
                    let (m, e) = cli.read_until_ready(T_LONG).await;
                    reply.extend(m);
                    end = e;
                }
            } else if e == ReadEnd::Code(b'Z') {
                end = ReadEnd::Ready(reply.last().and_then(|m| m.body.first().cloned()).unwrap_or(0));
            } else {
                end = e;
            }
        }
        _ => {
            let (m, e) = cli.read_until_ready(T_LONG).await;
            reply = m;
            end = e;
        }
    }
    cli.absorb_params(&reply);
    Exchange { tags, row_tags, sent, reply, end, t_send_us, t_done_us: t0.elapsed().as_micros() as u64 }
}

// ---------------------------------------------------------------------------- generators

/// A client transaction: a list of requests that leaves the server idle at the end.
#[derive(Clone, Debug, Serialize, Deserialize, PartialEq)]
pub struct Txn {
    pub pre_delay_ms: u8,
    pub reqs: Vec<Req>,
}

fn st_strategy() -> impl Strategy<Value = St> {
    (
        prop_oneof![3 => Just(Sk::Select), 1 => Just(Sk::Insert), 1 => Just(Sk::Update)],
        prop_oneof![4 => 0u16..4, 1 => 4u16..40],
        prop_oneof![3 => Just(0u16), 2 => 1u16..12, 1 => 12u16..40],
        // now and then the reply starts with NoticeResponses that by themselves reach pgcat's 8196-byte relay threshold
        prop_oneof![
            12 => Just(String::new()),
            1 => Just("notice=0 noticelen=9000".to_string()),
            1 => Just("notice=0,0,0 noticelen=3000".to_string()),
            1 => Just("notice=0,0,0,0,0,0,0,0,0,0,0,0,0,0,0,0,0,0,0,0,0,0,0,0,0,0,0,0,0,0,0,0,0,0,0,0,0,0,0,0 noticelen=250".to_string()),
        ],
    )
        .prop_map(|(kind, rows, delay_ms, extra)| St { kind, rows, delay_ms, err_at: None, extra })
}

fn anon_batch() -> impl Strategy<Value = Req> {
    (st_strategy(), any::<bool>(), prop_oneof![Just(0i32), Just(0i32), Just(2i32)]).prop_map(|(st, describe, max)| {
        let mut st = st;
        if max > 0 {
            st.extra = if st.extra.is_empty() { "suspend".into() } else { format!("{} suspend", st.extra) };
        }
        let mut v = vec![Ext::Parse(String::new(), st.clone(), vec![])];
        if describe {
            v.push(Ext::DescribeS(String::new()));
        }
        v.push(Ext::Bind(String::new(), String::new()));
        v.push(Ext::Execute(String::new(), max));
        if max > 0 && st.rows as i32 > max {
            v.push(Ext::Execute(String::new(), 0));
        }
        Req::Batch(v)
    })
}

/// Generator of well-formed client transactions over the supported protocol subset.
pub fn txn_strategy() -> impl Strategy<Value = Txn> {
    let auto = st_strategy().prop_map(|s| vec![Req::Simple(vec![s])]);
    let multi = prop::collection::vec(st_strategy(), 2..4).prop_map(|v| vec![Req::Simple(v)]);
    let block = (prop::collection::vec(prop_oneof![3 => st_strategy().prop_map(|s| Req::Simple(vec![s])), 1 => anon_batch()], 1..4), any::<bool>(), any::<bool>())
        .prop_map(|(body, commit, fail_inside)| {
            let mut v = vec![Req::Simple(vec![St::new(Sk::Begin)])];
            let n = body.len();
            for (i, r) in body.into_iter().enumerate() {
                let r = match r {
                    Req::Simple(mut s) if fail_inside && i == n / 2 => {
                        s[0].err_at = Some(0);
                        Req::Simple(s)
                    }
                    o => o,
                };
                v.push(r);
            }
            v.push(Req::Simple(vec![St::new(if commit { Sk::Commit } else { Sk::Rollback })]));
            v
        });
    let ext = anon_batch().prop_map(|b| vec![b]);
    let copy_in = (0u8..5, prop_oneof![Just(10u16), Just(3000u16), Just(9000u16)], prop::bool::weighted(0.25))
        .prop_map(|(chunks, chunk_len, fail)| vec![Req::CopyIn { chunks, chunk_len, fail }]);
    let copy_out = (0u16..30).prop_map(|rows| vec![Req::CopyOut { rows }]);
    let copy_in_block = (0u8..4, any::<bool>()).prop_map(|(chunks, commit)| {
        vec![
            Req::Simple(vec![St::new(Sk::Begin)]),
            Req::CopyIn { chunks, chunk_len: 20, fail: false },
            Req::Simple(vec![St::new(Sk::Select)]),
            Req::Simple(vec![St::new(if commit { Sk::Commit } else { Sk::Rollback })]),
        ]
    });
    (
        0u8..6,
        prop_oneof![3 => auto, 1 => multi, 4 => block, 2 => ext, 1 => copy_in, 1 => copy_out, 1 => copy_in_block],
    )
        .prop_map(|(pre_delay_ms, reqs)| Txn { pre_delay_ms, reqs })
}

/// Check that the DataRows of an exchange are exactly the rows its own statements must produce,
/// each carrying this client's tag; returns (backend conn ids seen, error text).
pub fn check_own_rows(x: &Exchange) -> Result<Vec<(String, u64)>, String> {
    let rows: Vec<String> = x
        .reply
        .iter()
        .filter_map(|m| match m.code {
            b'D' => proto::data_row_cols(&m.body).ok().and_then(|c| c.into_iter().next().flatten()).map(|v| String::from_utf8_lossy(&v).to_string()),
            b'd' => Some(String::from_utf8_lossy(&m.body).to_string()),
            _ => None,
        })
        .collect();
    let mut conns = vec![];
    let mut it = rows.iter();
    for (tag, n) in &x.row_tags {
        for i in 0..*n {
            let r = match it.next() {
                Some(r) => r,
                None => {
                    // rows may legitimately be cut short by an error inside this request
                    if x.reply.iter().any(|m| m.code == b'E') {
                        return Ok(conns);
                    }
                    return Err(format!("reply misses row {} of {}", i, tag.short()));
                }
            };
            match crate::cli::parse_row(r) {
                Some((label, conn, Some(t), idx)) => {
                    if t != *tag {
                        return Err(format!("row carries tag {} but statement {} was awaited (row {:?})", t.short(), tag.short(), r));
                    }
                    if idx != i as usize {
                        return Err(format!("row index {} where {} expected for {}", idx, i, tag.short()));
                    }
                    conns.push((label, conn));
                }
                _ => return Err(format!("unparseable row {:?} for {}", r, tag.short())),
            }
        }
    }
    if let Some(extra) = it.next() {
        return Err(format!("unexpected extra row {:?}", extra));
    }
    Ok(conns)
}
