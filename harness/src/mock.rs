//! Scriptable PostgreSQL stand-in ("mockpg").  Speaks protocol v3, keeps real session state,
//! logs every frontend message with the session state at that instant, and produces reply streams
//! dictated by `/*@ ... */` directives inside the client's own SQL text.
//!
//! Behaviour is restricted to what the protocol documentation fixes and what pgcat keys on:
//! command tags, the ReadyForQuery status byte, ParameterStatus on GUC changes, the error codes
//! 42P05 / 26000 / 34000 / 25P02 / 42601, and the COPY sub-protocols.

use crate::proto::{self, Framer, Msg};
use crate::sqllex::{self, Directive, Stmt, Tag};
use std::collections::{BTreeMap, HashMap, HashSet};
use std::sync::atomic::{AtomicBool, AtomicU64, AtomicU8, Ordering};
use std::sync::{Arc, Mutex};
use std::time::{Duration, Instant};
use tokio::io::{AsyncReadExt, AsyncWriteExt};
use tokio::net::{TcpListener, TcpStream};
use tokio::sync::Notify;

pub const TRACKED: [&str; 5] =
    ["client_encoding", "DateStyle", "TimeZone", "standard_conforming_strings", "application_name"];
const REPORTED: [&str; 7] = [
    "client_encoding",
    "DateStyle",
    "TimeZone",
    "standard_conforming_strings",
    "application_name",
    "IntervalStyle",
    "search_path",
];

#[derive(Clone, Debug, PartialEq, Eq)]
pub enum Auth {
    Trust,
    Md5 { user: String, password: String },
}

#[derive(Clone, Copy, Debug, PartialEq, Eq)]
#[repr(u8)]
pub enum Fault {
    Up = 0,
    /// accept and immediately close
    Down = 1,
    /// accept, read the startup packet, never answer
    HangStartup = 2,
    /// established sessions stop answering any message
    HangQuery = 3,
    /// refuse authentication with an ErrorResponse
    RefuseAuth = 4,
    /// answer every statement with an ErrorResponse
    ErrorReplies = 5,
    /// close the socket when the next message arrives
    CloseOnMessage = 6,
    /// established sessions stop reading from their socket for as long as the fault is set
    StallReads = 7,
}

#[derive(Clone, Debug)]
pub struct Snap {
    pub txn: u8,
    pub copy: u8,
    /// GUCs (lower-cased name) whose value differs from the session default, tracked five excluded
    pub dirty_gucs: Vec<(String, String)>,
    /// gucs set inside the current transaction or with SET LOCAL are not listed in dirty_gucs
    pub tracked: Vec<(String, String)>,
    pub role_set: bool,
    pub sql_prepared: usize,
    pub named_stmts: Vec<String>,
    pub batch_open: bool,
}

#[derive(Clone, Debug)]
pub enum EvKind {
    /// session authenticated and ready
    Open { user: String, database: String, params: Vec<(String, String)> },
    AuthFail,
    Cancel { pid: i32, key: i32 },
    Rx { code: u8, raw: Vec<u8>, tags: Vec<Tag>, sql: Option<String>, own: bool, snap: Snap },
    /// bytes written in reply to the request that ended with the Rx event `for_seq`
    Tx { bytes: Vec<u8>, for_seq: u64 },
    /// an Execute (or simple statement) ran this statement text
    Exec { tag: Option<Tag>, stmt_name: String, sql: String, types: Vec<i32> },
    ProtoErr { code: String, tag: Option<Tag> },
    Close { by_terminate: bool },
    /// harness-side marker (client closed its socket, admin command sent, ...)
    Ctl(String),
}

#[derive(Clone, Debug)]
pub struct Event {
    pub seq: u64,
    pub t_us: u64,
    pub server: usize,
    pub conn: u64,
    pub kind: EvKind,
}

#[derive(Default)]
struct Holds {
    released: HashSet<Tag>,
    release_all: bool,
}

pub struct Shared {
    pub log: Mutex<Vec<Event>>,
    seq: AtomicU64,
    conn_seq: AtomicU64,
    pub notify: Notify,
    holds: Mutex<Holds>,
    hold_notify: Notify,
    pub t0: Instant,
    stop: AtomicBool,
    stop_notify: Notify,
    /// keep full Tx bytes (C03/C20) or only lengths
    pub capture_tx: AtomicBool,
    /// statement texts carrying the `failonce` directive whose first Parse has already been rejected (by any backend of the
    /// case: "the table exists now" holds for all of them)
    pub failed_once: Mutex<std::collections::HashSet<String>>,
}

impl Shared {
    pub fn new() -> Arc<Shared> {
        Arc::new(Shared {
            log: Mutex::new(Vec::new()),
            seq: AtomicU64::new(0),
            conn_seq: AtomicU64::new(0),
            notify: Notify::new(),
            holds: Mutex::new(Holds::default()),
            hold_notify: Notify::new(),
            t0: Instant::now(),
            stop: AtomicBool::new(false),
            stop_notify: Notify::new(),
            capture_tx: AtomicBool::new(true),
            failed_once: Mutex::new(Default::default()),
        })
    }

    fn push(&self, server: usize, conn: u64, kind: EvKind) -> u64 {
        let seq = self.seq.fetch_add(1, Ordering::SeqCst);
        let ev = Event { seq, t_us: self.t0.elapsed().as_micros() as u64, server, conn, kind };
        self.log.lock().unwrap().push(ev);
        self.notify.notify_waiters();
        seq
    }

    pub fn ctl(&self, what: &str) -> u64 {
        self.push(usize::MAX, 0, EvKind::Ctl(what.to_string()))
    }

    pub fn snapshot(&self) -> Vec<Event> {
        self.log.lock().unwrap().clone()
    }

    pub fn len(&self) -> usize {
        self.log.lock().unwrap().len()
    }

    pub fn release(&self, tag: Tag) {
        self.holds.lock().unwrap().released.insert(tag);
        self.hold_notify.notify_waiters();
    }

    pub fn release_all(&self) {
        self.holds.lock().unwrap().release_all = true;
        self.hold_notify.notify_waiters();
    }

    pub fn stop(&self) {
        self.stop.store(true, Ordering::SeqCst);
        self.release_all();
        self.stop_notify.notify_waiters();
        self.notify.notify_waiters();
    }

    async fn wait_hold(&self, tags: &[Tag]) {
        loop {
            let n = self.hold_notify.notified();
            {
                let h = self.holds.lock().unwrap();
                if h.release_all || tags.iter().any(|t| h.released.contains(t)) || tags.is_empty() && h.release_all {
                    return;
                }
            }
            if self.stop.load(Ordering::SeqCst) {
                return;
            }
            n.await;
        }
    }

    /// Wait until some event at index >= from satisfies `pred`; returns its index.
    pub async fn wait_for<F: Fn(&Event) -> bool>(&self, from: usize, timeout: Duration, pred: F) -> Option<usize> {
        let deadline = Instant::now() + timeout;
        let mut idx = from;
        loop {
            let n = self.notify.notified();
            {
                let log = self.log.lock().unwrap();
                while idx < log.len() {
                    if pred(&log[idx]) {
                        return Some(idx);
                    }
                    idx += 1;
                }
            }
            let now = Instant::now();
            if now >= deadline {
                return None;
            }
            if tokio::time::timeout(deadline - now, n).await.is_err() {
                // final re-check below on next loop iteration with zero time left
                let log = self.log.lock().unwrap();
                while idx < log.len() {
                    if pred(&log[idx]) {
                        return Some(idx);
                    }
                    idx += 1;
                }
                return None;
            }
        }
    }

    /// Wait until a tagged frontend message with this tag has been received by some mock session.
    pub async fn wait_tag(&self, tag: Tag, timeout: Duration) -> Option<Event> {
        let i = self
            .wait_for(0, timeout, |e| matches!(&e.kind, EvKind::Rx { tags, .. } if tags.contains(&tag)))
            .await?;
        Some(self.log.lock().unwrap()[i].clone())
    }

    pub fn find_tag(&self, tag: Tag) -> Option<Event> {
        self.log
            .lock()
            .unwrap()
            .iter()
            .find(|e| matches!(&e.kind, EvKind::Rx { tags, .. } if tags.contains(&tag)))
            .cloned()
    }
}

pub struct ServerCfg {
    pub ip: String,
    pub label: String,
    pub auth: Auth,
    /// replies for pgcat's auth_query: user -> md5 hash ("md5....")
    pub auth_query: Mutex<HashMap<String, String>>,
    /// statement texts carrying the `failonce` directive whose first Parse has already been rejected by this backend
    pub failed_once: Mutex<std::collections::HashSet<String>>,
}

pub struct MockServer {
    pub idx: usize,
    pub label: String,
    pub ip: String,
    pub port: u16,
    fault: Arc<AtomicU8>,
    slow_ms: Arc<AtomicU64>,
    own_delay_ms: Arc<AtomicU64>,
    live: Arc<Mutex<HashMap<u64, Arc<Notify>>>>,
    shared: Arc<Shared>,
    cfg: Arc<ServerCfg>,
    accept_task: tokio::task::JoinHandle<()>,
}

impl MockServer {
    pub async fn start(idx: usize, cfg: ServerCfg, shared: Arc<Shared>) -> std::io::Result<MockServer> {
        let listener = TcpListener::bind(format!("{}:0", cfg.ip)).await?;
        let port = listener.local_addr()?.port();
        let fault = Arc::new(AtomicU8::new(0));
        let slow_ms = Arc::new(AtomicU64::new(0));
        let own_delay_ms = Arc::new(AtomicU64::new(0));
        let od2 = own_delay_ms.clone();
        let live: Arc<Mutex<HashMap<u64, Arc<Notify>>>> = Arc::new(Mutex::new(HashMap::new()));
        let label = cfg.label.clone();
        let ip = cfg.ip.clone();
        let cfg = Arc::new(cfg);
        let cfg_keep = cfg.clone();
        let (f2, s2, l2, sh2) = (fault.clone(), slow_ms.clone(), live.clone(), shared.clone());
        let accept_task = tokio::spawn(async move {
            loop {
                let (sock, _) = match listener.accept().await {
                    Ok(x) => x,
                    Err(_) => break,
                };
                let _ = sock.set_nodelay(true);
                if sh2.stop.load(Ordering::SeqCst) {
                    break;
                }
                if f2.load(Ordering::SeqCst) == Fault::Down as u8 {
                    drop(sock);
                    continue;
                }
                let conn = sh2.conn_seq.fetch_add(1, Ordering::SeqCst) + 1;
                let kill = Arc::new(Notify::new());
                let sess = Session::new(idx, conn, cfg.clone(), sh2.clone(), f2.clone(), s2.clone(), od2.clone());
                let l3 = l2.clone();
                let sh3 = sh2.clone();
                let kill2 = kill.clone();
                tokio::spawn(async move {
                    let stopn = sh3.stop_notify.notified();
                    tokio::pin!(stopn);
                    tokio::select! {
                        _ = sess.run(sock, l3.clone(), kill2.clone()) => {}
                        _ = kill2.notified() => {
                            // abrupt server-side close (socket dropped with the future)
                            sh3.push(idx, conn, EvKind::Close { by_terminate: false });
                        }
                        _ = &mut stopn => {}
                    }
                    l3.lock().unwrap().remove(&conn);
                });
            }
        });
        Ok(MockServer { idx, label, ip, port, fault, slow_ms, own_delay_ms, live, shared, cfg: cfg_keep, accept_task })
    }

    pub fn set_fault(&self, f: Fault) {
        self.fault.store(f as u8, Ordering::SeqCst);
    }
    pub fn set_slow(&self, ms: u64) {
        self.slow_ms.store(ms, Ordering::SeqCst);
    }
    /// delay the reply to the next pgcat-own query (health check `;`) by this many ms (one shot)
    pub fn slow_next_own(&self, ms: u64) {
        self.own_delay_ms.store(ms, Ordering::SeqCst);
    }
    /// what this server answers to pgcat's auth_query for `user` from now on ("md5<hex>")
    pub fn set_auth_hash(&self, user: &str, hash: &str) {
        self.cfg.auth_query.lock().unwrap().insert(user.to_string(), hash.to_string());
    }
    pub fn own_delay_handle(&self) -> Arc<AtomicU64> {
        self.own_delay_ms.clone()
    }
    /// number of authenticated sessions whose socket is still open
    pub fn live_sessions(&self) -> usize {
        self.live.lock().unwrap().len()
    }
    pub fn live_conn_ids(&self) -> Vec<u64> {
        let mut v: Vec<u64> = self.live.lock().unwrap().keys().cloned().collect();
        v.sort();
        v
    }
    /// abruptly close every established session (server crash)
    pub fn kill_sessions(&self) {
        for (_, n) in self.live.lock().unwrap().iter() {
            n.notify_one();
        }
    }
    pub fn kill_conn(&self, conn: u64) {
        if let Some(n) = self.live.lock().unwrap().get(&conn) {
            n.notify_one();
        }
    }
    pub fn shared(&self) -> &Arc<Shared> {
        &self.shared
    }
}

impl Drop for MockServer {
    fn drop(&mut self) {
        self.accept_task.abort();
    }
}

// ------------------------------------------------------------------------------------ session

#[derive(Clone, Debug)]
struct Prepared {
    sql: String,
    types: Vec<i32>,
    stmt: Stmt,
}

#[derive(Clone, Debug)]
struct Portal {
    stmt_name: String,
    prep: Prepared,
    rows_sent: usize,
    done: bool,
}

struct Session {
    server: usize,
    conn: u64,
    cfg: Arc<ServerCfg>,
    shared: Arc<Shared>,
    fault: Arc<AtomicU8>,
    slow_ms: Arc<AtomicU64>,
    own_delay_ms: Arc<AtomicU64>,
    label: String,
    // state
    txn: u8,
    copy: u8,
    copy_tag: Option<Tag>,
    copy_rows: usize,
    gucs: BTreeMap<String, String>,
    defaults: BTreeMap<String, String>,
    /// gucs set while inside a transaction block (name -> value before the block), or SET LOCAL
    txn_saved: Option<BTreeMap<String, String>>,
    txn_touched: HashSet<String>,
    role_set: bool,
    sql_prepared: HashMap<String, String>,
    stmts: HashMap<String, Prepared>,
    portals: HashMap<String, Portal>,
    ext_error: bool,
    ext_out: Vec<u8>,
    ext_tags: Vec<Tag>,
    ext_dir: Directive,
    batch_open: bool,
}

fn canon(name: &str) -> String {
    name.to_ascii_lowercase()
}

fn display_name(lower: &str) -> String {
    for r in REPORTED {
        if r.to_ascii_lowercase() == lower {
            return r.to_string();
        }
    }
    lower.to_string()
}

struct Reply {
    own: bool,
    bytes: Vec<u8>,
    dir: Directive,
    tags: Vec<Tag>,
    close_after: bool,
}

impl Session {
    fn new(
        server: usize,
        conn: u64,
        cfg: Arc<ServerCfg>,
        shared: Arc<Shared>,
        fault: Arc<AtomicU8>,
        slow_ms: Arc<AtomicU64>,
        own_delay_ms: Arc<AtomicU64>,
    ) -> Session {
        let label = cfg.label.clone();
        Session {
            server,
            conn,
            cfg,
            shared,
            fault,
            slow_ms,
            own_delay_ms,
            label,
            txn: b'I',
            copy: 0,
            copy_tag: None,
            copy_rows: 0,
            gucs: BTreeMap::new(),
            defaults: BTreeMap::new(),
            txn_saved: None,
            txn_touched: HashSet::new(),
            role_set: false,
            sql_prepared: HashMap::new(),
            stmts: HashMap::new(),
            portals: HashMap::new(),
            ext_error: false,
            ext_out: vec![],
            ext_tags: vec![],
            ext_dir: Directive::default(),
            batch_open: false,
        }
    }

    fn fault(&self) -> u8 {
        self.fault.load(Ordering::SeqCst)
    }

    fn snap(&self) -> Snap {
        let tracked_l: Vec<String> = TRACKED.iter().map(|t| t.to_ascii_lowercase()).collect();
        let mut dirty = vec![];
        for (k, v) in &self.gucs {
            if tracked_l.contains(k) {
                continue;
            }
            if self.txn_touched.contains(k) {
                continue;
            }
            if self.defaults.get(k) != Some(v) {
                dirty.push((k.clone(), v.clone()));
            }
        }
        let tracked = TRACKED
            .iter()
            .map(|t| (t.to_string(), self.gucs.get(&t.to_ascii_lowercase()).cloned().unwrap_or_default()))
            .collect();
        let mut named: Vec<String> = self.stmts.keys().filter(|k| !k.is_empty()).cloned().collect();
        named.sort();
        Snap {
            txn: self.txn,
            copy: self.copy,
            dirty_gucs: dirty,
            tracked,
            role_set: self.role_set,
            sql_prepared: self.sql_prepared.len(),
            named_stmts: named,
            batch_open: self.batch_open,
        }
    }

    fn ev(&self, kind: EvKind) -> u64 {
        self.shared.push(self.server, self.conn, kind)
    }

    async fn run(mut self, mut sock: TcpStream, live: Arc<Mutex<HashMap<u64, Arc<Notify>>>>, kill: Arc<Notify>) {
        // ---- startup
        let mut params: Vec<(String, String)> = vec![];
        loop {
            let len = match sock.read_i32().await {
                Ok(l) => l,
                Err(_) => return,
            };
            if !(8..=10_000).contains(&len) {
                return;
            }
            let mut body = vec![0u8; len as usize - 4];
            if sock.read_exact(&mut body).await.is_err() {
                return;
            }
            let code = i32::from_be_bytes([body[0], body[1], body[2], body[3]]);
            if code == proto::SSL_REQUEST {
                if sock.write_all(b"N").await.is_err() {
                    return;
                }
                continue;
            }
            if code == proto::CANCEL_REQUEST && body.len() >= 12 {
                let pid = i32::from_be_bytes([body[4], body[5], body[6], body[7]]);
                let key = i32::from_be_bytes([body[8], body[9], body[10], body[11]]);
                self.ev(EvKind::Cancel { pid, key });
                return;
            }
            if code != proto::PROTOCOL_V3 {
                return;
            }
            let mut i = 4;
            while i < body.len() && body[i] != 0 {
                let (k, n) = match proto::read_cstr(&body, i) {
                    Some(x) => x,
                    None => return,
                };
                let (v, n) = match proto::read_cstr(&body, n) {
                    Some(x) => x,
                    None => return,
                };
                params.push((k, v));
                i = n;
            }
            break;
        }
        if self.fault() == Fault::HangStartup as u8 {
            std::future::pending::<()>().await;
        }
        let user = params.iter().find(|(k, _)| k == "user").map(|x| x.1.clone()).unwrap_or_default();
        let database = params.iter().find(|(k, _)| k == "database").map(|x| x.1.clone()).unwrap_or(user.clone());
        if self.fault() == Fault::RefuseAuth as u8 {
            let _ = sock.write_all(&proto::error_response("FATAL", "28P01", "password authentication failed")).await;
            self.ev(EvKind::AuthFail);
            return;
        }
        if let Auth::Md5 { user: u, password } = &self.cfg.auth {
            let salt = [(self.conn as u8).wrapping_mul(37) | 1, 0x5a, (self.conn >> 8) as u8, 0xc3];
            if sock.write_all(&proto::auth_md5(salt)).await.is_err() {
                return;
            }
            let mut hdr = [0u8; 5];
            if sock.read_exact(&mut hdr).await.is_err() {
                return;
            }
            let l = i32::from_be_bytes([hdr[1], hdr[2], hdr[3], hdr[4]]);
            if hdr[0] != b'p' || !(4..=1000).contains(&l) {
                return;
            }
            let mut pw = vec![0u8; l as usize - 4];
            if sock.read_exact(&mut pw).await.is_err() {
                return;
            }
            let expect = proto::md5_password_body(u, password, &salt);
            if pw != expect || &user != u {
                let _ = sock.write_all(&proto::error_response("FATAL", "28P01", "password authentication failed")).await;
                self.ev(EvKind::AuthFail);
                return;
            }
        }
        // session defaults
        let app = params.iter().find(|(k, _)| k == "application_name").map(|x| x.1.clone()).unwrap_or_default();
        for (k, v) in [
            ("server_version", "14.5 (mockpg)"),
            ("server_encoding", "UTF8"),
            ("client_encoding", "UTF8"),
            ("datestyle", "ISO, MDY"),
            ("timezone", "Etc/UTC"),
            ("standard_conforming_strings", "on"),
            ("integer_datetimes", "on"),
            ("intervalstyle", "postgres"),
            ("is_superuser", "off"),
            ("search_path", "\"$user\", public"),
        ] {
            self.gucs.insert(k.to_string(), v.to_string());
        }
        self.gucs.insert("application_name".into(), app);
        self.gucs.insert("session_authorization".into(), user.clone());
        self.defaults = self.gucs.clone();
        let mut out = proto::auth_ok();
        for k in [
            "server_version",
            "server_encoding",
            "client_encoding",
            "datestyle",
            "timezone",
            "standard_conforming_strings",
            "application_name",
            "integer_datetimes",
            "intervalstyle",
            "is_superuser",
            "session_authorization",
        ] {
            let name = match k {
                "datestyle" => "DateStyle",
                "timezone" => "TimeZone",
                "intervalstyle" => "IntervalStyle",
                o => o,
            };
            out.extend_from_slice(&proto::parameter_status(name, &self.gucs[k]));
        }
        out.extend_from_slice(&proto::backend_key_data(self.pid(), self.key()));
        out.extend_from_slice(&proto::ready_for_query(b'I'));
        if sock.write_all(&out).await.is_err() {
            return;
        }
        live.lock().unwrap().insert(self.conn, kill);
        self.ev(EvKind::Open { user, database, params });

        // ---- main loop
        let mut framer = Framer::default();
        let mut buf = vec![0u8; 65536];
        let mut by_terminate = false;
        'outer: loop {
            let msg = loop {
                // PostgreSQL validates the message type as soon as its first byte is there, and the length against a
                // per-type limit as soon as the header is there (SocketBackend / pq_getmessage)
                if let Some(&t) = framer.buf.first() {
                    if !b"QPBEDCHSXdcfpF".contains(&t) {
                        self.ev(EvKind::ProtoErr { code: "08P01".into(), tag: None });
                        let _ = sock.write_all(&proto::error_response("FATAL", "08P01", &format!("invalid frontend message type {}", t))).await;
                        break 'outer;
                    }
                    if framer.buf.len() >= 5 {
                        let len = i32::from_be_bytes([framer.buf[1], framer.buf[2], framer.buf[3], framer.buf[4]]);
                        let max = if b"SHXEDCcf".contains(&t) { 10_000 } else { 0x3fff_ffff };
                        if len < 4 || len > max {
                            self.ev(EvKind::ProtoErr { code: "08P01".into(), tag: None });
                            break 'outer;
                        }
                    }
                }
                match framer.next() {
                    Ok(Some(m)) => break m,
                    Ok(None) => {}
                    Err(_) => break 'outer,
                }
                while self.fault() == Fault::StallReads as u8 {
                    tokio::time::sleep(Duration::from_millis(5)).await;
                }
                match sock.read(&mut buf).await {
                    Ok(0) | Err(_) => break 'outer,
                    Ok(n) => framer.push(&buf[..n]),
                }
            };
            if msg.code == b'X' {
                self.ev(EvKind::Rx { code: b'X', raw: msg.encode(), tags: vec![], sql: None, own: true, snap: self.snap() });
                by_terminate = true;
                break;
            }
            let f = self.fault();
            if f == Fault::CloseOnMessage as u8 {
                // the message was received (and is logged) but the server dies before answering
                let tags = if msg.code == b'Q' { scan_tags(&String::from_utf8_lossy(&msg.body)) } else { vec![] };
                let snap = self.snap();
                self.ev(EvKind::Rx { code: msg.code, raw: msg.encode(), tags, sql: None, own: false, snap });
                break;
            }
            let reply = self.handle(msg);
            let (reply, rx_seq) = match reply {
                Some(x) => x,
                None => continue,
            };
            if self.fault() == Fault::HangQuery as u8 || reply.dir.hang {
                std::future::pending::<()>().await;
            }
            if reply.dir.hold {
                self.shared.wait_hold(&reply.tags).await;
            }
            let mut slow = self.slow_ms.load(Ordering::SeqCst).max(reply.dir.delay_ms);
            if reply.own {
                slow = slow.max(self.own_delay_ms.swap(0, Ordering::SeqCst));
            }
            if slow > 0 {
                tokio::time::sleep(Duration::from_millis(slow)).await;
            }
            let mut bytes = reply.bytes;
            let mut close = reply.close_after;
            if let Some(k) = reply.dir.close_at {
                bytes.truncate(k.min(bytes.len()));
                close = true;
            }
            let mut hang_after_write = false;
            if let Some(k) = reply.dir.hang_after {
                bytes.truncate(k.min(bytes.len()));
                hang_after_write = true;
            }
            if self.shared.capture_tx.load(Ordering::Relaxed) {
                self.ev(EvKind::Tx { bytes: bytes.clone(), for_seq: rx_seq });
            } else {
                self.ev(EvKind::Tx { bytes: (bytes.len() as u64).to_be_bytes().to_vec(), for_seq: rx_seq });
            }
            if reply.dir.chunks.is_empty() {
                if sock.write_all(&bytes).await.is_err() {
                    break;
                }
            } else {
                let mut off = 0;
                let mut ci = 0;
                while off < bytes.len() {
                    // the chunk pattern applies to the first 400 writes; the remainder goes out at once
                    // (a 1-byte pattern over a 100 kB reply would only test the harness' patience)
                    let n = if ci >= 400 { bytes.len() - off } else { reply.dir.chunks[ci % reply.dir.chunks.len()].min(bytes.len() - off) };
                    ci += 1;
                    if sock.write_all(&bytes[off..off + n]).await.is_err() {
                        break 'outer;
                    }
                    let _ = sock.flush().await;
                    off += n;
                    tokio::task::yield_now().await;
                    if ci % 4 == 0 {
                        tokio::time::sleep(Duration::from_micros(200)).await;
                    }
                }
            }
            if hang_after_write {
                let _ = sock.flush().await;
                std::future::pending::<()>().await;
            }
            if close {
                break;
            }
        }
        // (the session state at the moment the peer went away, for history checks: is work being abandoned?)
        let sn = self.snap();
        self.ev(EvKind::Ctl(format!("state-at-close txn={} copy={} batch_open={}", sn.txn as char, sn.copy, sn.batch_open)));
        self.ev(EvKind::Close { by_terminate });
    }

    fn pid(&self) -> i32 {
        pid_for(self.server, self.conn)
    }
    fn key(&self) -> i32 {
        key_for(self.conn)
    }

    // -------------------------------------------------------------------------------- dispatch

    /// Returns Some((reply, seq of the Rx event)) when something must be written now.
    fn handle(&mut self, msg: Msg) -> Option<(Reply, u64)> {
        let snap = self.snap();
        let raw = msg.encode();
        // PostgreSQL (CopyGetData): during COPY FROM STDIN only CopyData/CopyDone/CopyFail are
        // accepted, Flush and Sync are ignored; any other message type loses protocol
        // synchronisation and the backend terminates the connection with a FATAL error.
        if self.copy == 1 && !matches!(msg.code, b'd' | b'c' | b'f') {
            let tags = if msg.code == b'Q' { scan_tags(&String::from_utf8_lossy(&msg.body)) } else { vec![] };
            let seq = self.ev(EvKind::Rx { code: msg.code, raw, tags, sql: None, own: false, snap });
            if matches!(msg.code, b'H' | b'S') {
                return None;
            }
            self.ev(EvKind::ProtoErr { code: "08P01".into(), tag: self.copy_tag });
            let out = proto::error_response("FATAL", "08P01", &format!("unexpected message type 0x{:02X} during COPY from stdin", msg.code));
            return Some((Reply { own: false, bytes: out, dir: Directive::default(), tags: vec![], close_after: true }, seq));
        }
        match msg.code {
            b'Q' => {
                let sql = proto::read_cstr(&msg.body, 0).map(|x| x.0).unwrap_or_default();
                let scs = self.gucs.get("standard_conforming_strings").map(|v| v == "on").unwrap_or(true);
                let parsed = sqllex::split_statements(&sql, scs);
                let tags: Vec<Tag> = match &parsed {
                    Ok(v) => v.iter().filter_map(|s| s.tag).collect(),
                    Err(_) => scan_tags(&sql),
                };
                let own = tags.is_empty() && is_pgcat_own_query(&sql);
                let seq = self.ev(EvKind::Rx { code: b'Q', raw, tags: tags.clone(), sql: Some(sql.clone()), own, snap });
                let mut out = vec![];
                let mut dir = Directive::default();
                let mut close_after = false;
                match parsed {
                    Err(e) => {
                        out.extend_from_slice(&proto::error_response("ERROR", "42601", &format!("syntax error: {:?}", e)));
                        self.fail_txn();
                    }
                    Ok(stmts) => {
                        if stmts.is_empty() {
                            out.extend_from_slice(&proto::empty_query_response());
                        }
                        for st in stmts {
                            merge_dir(&mut dir, &st.directive);
                            let r = self.exec_simple(&st, &mut out);
                            match r {
                                Flow::Continue => {}
                                Flow::Error => break,
                                Flow::CopyIn => {
                                    // reply ends here; no ReadyForQuery until the copy finishes
                                    return Some((Reply { own: false, bytes: out, dir, tags, close_after }, seq));
                                }
                                Flow::Close => {
                                    close_after = true;
                                    break;
                                }
                            }
                        }
                    }
                }
                out.extend_from_slice(&proto::ready_for_query(self.txn));
                Some((Reply { own, bytes: out, dir, tags, close_after }, seq))
            }
            b'P' => {
                let p = proto::decode_parse(&msg.body);
                let sql = p.as_ref().map(|p| p.sql.clone());
                let st = sql.as_ref().and_then(|s| sqllex::split_statements(s, true).ok());
                let tags: Vec<Tag> = st.iter().flatten().filter_map(|s| s.tag).collect();
                self.ev(EvKind::Rx { code: b'P', raw, tags: tags.clone(), sql, own: false, snap });
                self.batch_open = true;
                self.ext_tags.extend(tags.iter().cloned());
                if self.ext_error {
                    return None;
                }
                let p = match p {
                    Some(p) => p,
                    None => {
                        self.ext_fail("08P01", "invalid Parse message", None);
                        return None;
                    }
                };
                let stmts = st.unwrap_or_default();
                if stmts.len() > 1 {
                    self.ext_fail("42601", "cannot insert multiple commands into a prepared statement", tags.first().cloned());
                    return None;
                }
                let stmt = stmts.into_iter().next().unwrap_or_default();
                merge_dir(&mut self.ext_dir, &stmt.directive);
                if stmt.directive.failparse {
                    self.ext_fail("42601", "syntax error (directed)", stmt.tag);
                    return None;
                }
                if stmt.directive.failonce && self.shared.failed_once.lock().unwrap().insert(p.sql.clone()) {
                    self.ext_fail("42P01", "relation does not exist (directed, first attempt only)", stmt.tag);
                    return None;
                }
                if !p.name.is_empty() && self.stmts.contains_key(&p.name) {
                    self.ext_fail("42P05", &format!("prepared statement \"{}\" already exists", p.name), stmt.tag);
                    return None;
                }
                self.stmts.insert(p.name.clone(), Prepared { sql: p.sql.clone(), types: p.types.clone(), stmt });
                self.ext_out.extend_from_slice(&proto::parse_complete());
                None
            }
            b'B' => {
                let b = proto::decode_bind(&msg.body);
                self.ev(EvKind::Rx { code: b'B', raw, tags: vec![], sql: None, own: false, snap });
                self.batch_open = true;
                if self.ext_error {
                    return None;
                }
                let b = match b {
                    Some(b) => b,
                    None => {
                        self.ext_fail("08P01", "invalid Bind message", None);
                        return None;
                    }
                };
                match self.stmts.get(&b.stmt) {
                    None => {
                        self.ext_fail("26000", &format!("prepared statement \"{}\" does not exist", b.stmt), None);
                    }
                    Some(prep) => {
                        if self.txn == b'E' && !is_txn_exit(&prep.stmt) {
                            let t = prep.stmt.tag;
                            self.ext_fail("25P02", "current transaction is aborted", t);
                            return None;
                        }
                        let prep = prep.clone();
                        if let Some(t) = prep.stmt.tag {
                            if !self.ext_tags.contains(&t) {
                                self.ext_tags.push(t);
                            }
                        }
                        merge_dir(&mut self.ext_dir, &prep.stmt.directive);
                        self.portals.insert(b.portal.clone(), Portal { stmt_name: b.stmt.clone(), prep, rows_sent: 0, done: false });
                        self.ext_out.extend_from_slice(&proto::bind_complete());
                    }
                }
                None
            }
            b'D' => {
                self.ev(EvKind::Rx { code: b'D', raw, tags: vec![], sql: None, own: false, snap });
                self.batch_open = true;
                if self.ext_error {
                    return None;
                }
                if msg.body.is_empty() {
                    self.ext_fail("08P01", "invalid Describe message", None);
                    return None;
                }
                let kind = msg.body[0];
                let name = proto::read_cstr(&msg.body, 1).map(|x| x.0).unwrap_or_default();
                if kind == b'S' {
                    match self.stmts.get(&name) {
                        None => self.ext_fail("26000", &format!("prepared statement \"{}\" does not exist", name), None),
                        Some(p) => {
                            let p = p.clone();
                            self.ext_out.extend_from_slice(&proto::parameter_description(&p.types));
                            if returns_rows(&p.stmt) {
                                self.ext_out.extend_from_slice(&proto::row_description(&["v"]));
                            } else {
                                self.ext_out.extend_from_slice(&proto::no_data());
                            }
                        }
                    }
                } else {
                    match self.portals.get(&name) {
                        None => self.ext_fail("34000", &format!("portal \"{}\" does not exist", name), None),
                        Some(p) => {
                            if returns_rows(&p.prep.stmt) {
                                self.ext_out.extend_from_slice(&proto::row_description(&["v"]));
                            } else {
                                self.ext_out.extend_from_slice(&proto::no_data());
                            }
                        }
                    }
                }
                None
            }
            b'E' => {
                self.ev(EvKind::Rx { code: b'E', raw, tags: vec![], sql: None, own: false, snap });
                self.batch_open = true;
                if self.ext_error {
                    return None;
                }
                let (pname, n) = match proto::read_cstr(&msg.body, 0) {
                    Some(x) => x,
                    None => {
                        self.ext_fail("08P01", "invalid Execute message", None);
                        return None;
                    }
                };
                let max = if n + 4 <= msg.body.len() {
                    i32::from_be_bytes([msg.body[n], msg.body[n + 1], msg.body[n + 2], msg.body[n + 3]])
                } else {
                    0
                };
                let portal = match self.portals.get(&pname) {
                    None => {
                        self.ext_fail("34000", &format!("portal \"{}\" does not exist", pname), None);
                        return None;
                    }
                    Some(p) => p.clone(),
                };
                self.ev(EvKind::Exec {
                    tag: portal.prep.stmt.tag,
                    stmt_name: portal.stmt_name.clone(),
                    sql: portal.prep.sql.clone(),
                    types: portal.prep.types.clone(),
                });
                let mut out = std::mem::take(&mut self.ext_out);
                let r = self.exec_portal(&pname, portal, max, &mut out);
                self.ext_out = out;
                if let Flow::Error = r {
                    self.ext_error = true;
                }
                None
            }
            b'C' => {
                self.ev(EvKind::Rx { code: b'C', raw, tags: vec![], sql: None, own: false, snap });
                self.batch_open = true;
                if self.ext_error {
                    return None;
                }
                if msg.body.is_empty() {
                    self.ext_fail("08P01", "invalid Close message", None);
                    return None;
                }
                let kind = msg.body[0];
                let name = proto::read_cstr(&msg.body, 1).map(|x| x.0).unwrap_or_default();
                if kind == b'S' {
                    self.stmts.remove(&name);
                } else {
                    self.portals.remove(&name);
                }
                self.ext_out.extend_from_slice(&proto::close_complete());
                None
            }
            b'H' => {
                let seq = self.ev(EvKind::Rx { code: b'H', raw, tags: vec![], sql: None, own: false, snap });
                let out = std::mem::take(&mut self.ext_out);
                if out.is_empty() {
                    return None;
                }
                Some((Reply { own: false, bytes: out, dir: Directive::default(), tags: self.ext_tags.clone(), close_after: false }, seq))
            }
            b'S' => {
                let tags = std::mem::take(&mut self.ext_tags);
                let seq = self.ev(EvKind::Rx { code: b'S', raw, tags: tags.clone(), sql: None, own: false, snap });
                self.ext_error = false;
                self.batch_open = false;
                // unnamed portal and implicit transaction end at Sync when not in a block
                if self.txn == b'I' {
                    self.portals.clear();
                }
                let mut out = std::mem::take(&mut self.ext_out);
                out.extend_from_slice(&proto::ready_for_query(self.txn));
                let dir = std::mem::take(&mut self.ext_dir);
                Some((Reply { own: false, bytes: out, dir, tags, close_after: false }, seq))
            }
            b'd' => {
                let tags = scan_copy_tags(&msg.body);
                self.ev(EvKind::Rx { code: b'd', raw, tags, sql: None, own: false, snap });
                if self.copy == 1 {
                    self.copy_rows += 1;
                }
                None
            }
            b'c' | b'f' => {
                let tags: Vec<Tag> = self.copy_tag.iter().cloned().collect();
                let seq = self.ev(EvKind::Rx { code: msg.code, raw, tags: tags.clone(), sql: None, own: false, snap });
                if self.copy != 1 {
                    return None;
                }
                self.copy = 0;
                let mut out = vec![];
                if msg.code == b'c' {
                    out.extend_from_slice(&proto::command_complete(&format!("COPY {}", self.copy_rows)));
                } else {
                    out.extend_from_slice(&proto::error_response("ERROR", "57014", "COPY from stdin failed"));
                    self.fail_txn();
                }
                self.copy_rows = 0;
                out.extend_from_slice(&proto::ready_for_query(self.txn));
                Some((Reply { own: false, bytes: out, dir: Directive::default(), tags, close_after: false }, seq))
            }
            other => {
                let seq = self.ev(EvKind::Rx { code: other, raw, tags: vec![], sql: None, own: false, snap });
                let mut out = proto::error_response("FATAL", "08P01", &format!("invalid frontend message type {}", other));
                out.extend_from_slice(&[]);
                Some((Reply { own: false, bytes: out, dir: Directive::default(), tags: vec![], close_after: true }, seq))
            }
        }
    }

    fn ext_fail(&mut self, code: &str, msg: &str, tag: Option<Tag>) {
        self.ev(EvKind::ProtoErr { code: code.to_string(), tag });
        self.ext_out.extend_from_slice(&proto::error_response("ERROR", code, msg));
        self.ext_error = true;
        self.fail_txn();
    }

    fn fail_txn(&mut self) {
        if self.txn == b'T' {
            self.txn = b'E';
        }
    }

    // -------------------------------------------------------------------------- statement exec

    fn exec_portal(&mut self, pname: &str, mut portal: Portal, max: i32, out: &mut Vec<u8>) -> Flow {
        let st = portal.prep.stmt.clone();
        if returns_rows(&st) && st.directive.copyout.is_none() && !is_copy(&st) {
            let total = st.directive.rows.unwrap_or(1);
            let d = &st.directive;
            let limit = if max > 0 && d.suspend { (portal.rows_sent + max as usize).min(total) } else { total };
            if self.fault() == Fault::ErrorReplies as u8 {
                out.extend_from_slice(&proto::error_response("ERROR", "XX000", "directed failure"));
                self.fail_txn();
                return Flow::Error;
            }
            let mut i = portal.rows_sent;
            while i < limit {
                if let Some(f) = self.emit_row_events(d, i, out) {
                    return f;
                }
                out.extend_from_slice(&self.row(&st, i));
                i += 1;
            }
            portal.rows_sent = i;
            if i >= total {
                if let Some(f) = self.emit_row_events(d, total, out) {
                    return f;
                }
                out.extend_from_slice(&proto::command_complete(&format!("SELECT {}", total)));
                portal.done = true;
            } else {
                out.extend_from_slice(&proto::portal_suspended());
            }
            self.portals.insert(pname.to_string(), portal);
            Flow::Continue
        } else {
            // non-row statements share the simple-protocol executor (no RowDescription is involved)
            self.exec_stmt(&st, out, false)
        }
    }

    fn exec_simple(&mut self, st: &Stmt, out: &mut Vec<u8>) -> Flow {
        self.ev(EvKind::Exec { tag: st.tag, stmt_name: String::new(), sql: st.text.clone(), types: vec![] });
        self.exec_stmt(st, out, true)
    }

    /// PostgreSQL emits NOTICE / ParameterStatus / errors interleaved with rows; positions are
    /// "before row i" (i == rows means before CommandComplete).
    fn emit_row_events(&mut self, d: &Directive, i: usize, out: &mut Vec<u8>) -> Option<Flow> {
        for n in &d.notice_at {
            if *n == i {
                let mut text = format!("notice before row {}", i);
                if d.notice_len > text.len() {
                    text.push_str(&"n".repeat(d.notice_len - text.len()));
                }
                out.extend_from_slice(&proto::notice_response(&text));
            }
        }
        for (at, k, v) in &d.pstatus_at {
            if *at == i {
                self.gucs.insert(canon(k), v.clone());
                out.extend_from_slice(&proto::parameter_status(k, v));
            }
        }
        if let Some((at, code)) = &d.err_at {
            if *at == i {
                if d.err_raw.is_empty() {
                    out.extend_from_slice(&proto::error_response("ERROR", code, "directed error"));
                } else {
                    let mut b = vec![b'S'];
                    b.extend_from_slice(b"ERROR\0VERROR\0C");
                    b.extend_from_slice(code.as_bytes());
                    b.extend_from_slice(b"\0Mcolumn \"");
                    b.extend_from_slice(&d.err_raw.iter().cloned().filter(|x| *x != 0).collect::<Vec<u8>>());
                    b.extend_from_slice(b"\" does not exist\0\0");
                    out.extend_from_slice(&proto::frame(b'E', &b));
                }
                self.fail_txn();
                return Some(Flow::Error);
            }
        }
        None
    }

    fn row(&self, st: &Stmt, i: usize) -> Vec<u8> {
        let mut v = format!(
            "{}#{}|{}|{}",
            self.label,
            self.conn,
            st.tag.map(|t| t.short()).unwrap_or_else(|| "-".into()),
            i
        )
        .into_bytes();
        let d = &st.directive;
        if !d.rowlen.is_empty() {
            let want = d.rowlen[i % d.rowlen.len()];
            if want > v.len() {
                v.resize(want, b'x');
            }
        }
        proto::data_row(&[&v])
    }

    fn exec_stmt(&mut self, st: &Stmt, out: &mut Vec<u8>, simple: bool) -> Flow {
        let w: Vec<&str> = st.words.iter().map(|s| s.as_str()).collect();
        let kw = w.first().cloned().unwrap_or("");
        if kw.is_empty() {
            out.extend_from_slice(&proto::empty_query_response());
            return Flow::Continue;
        }
        if self.fault() == Fault::ErrorReplies as u8 {
            out.extend_from_slice(&proto::error_response("ERROR", "XX000", "directed failure"));
            self.fail_txn();
            return Flow::Error;
        }
        if self.txn == b'E' && !is_txn_exit(st) {
            self.ev(EvKind::ProtoErr { code: "25P02".into(), tag: st.tag });
            out.extend_from_slice(&proto::error_response(
                "ERROR",
                "25P02",
                "current transaction is aborted, commands ignored until end of transaction block",
            ));
            return Flow::Error;
        }
        let d = st.directive.clone();
        match kw {
            "BEGIN" | "START" => {
                if let Some(f) = self.emit_row_events(&d, 0, out) {
                    return f;
                }
                if self.txn == b'I' {
                    self.txn = b'T';
                    self.txn_saved = Some(self.gucs.clone());
                    self.txn_touched.clear();
                }
                out.extend_from_slice(&proto::command_complete("BEGIN"));
            }
            "COMMIT" | "END" => {
                let failed = self.txn == b'E';
                if failed {
                    self.rollback_gucs(out);
                } else {
                    self.txn_saved = None;
                    self.txn_touched.clear();
                }
                self.txn = b'I';
                self.portals.clear();
                out.extend_from_slice(&proto::command_complete(if failed { "ROLLBACK" } else { "COMMIT" }));
            }
            "ROLLBACK" | "ABORT" => {
                if w.get(1) == Some(&"TO") {
                    if self.txn == b'E' {
                        self.txn = b'T';
                    }
                    out.extend_from_slice(&proto::command_complete("ROLLBACK"));
                } else {
                    self.rollback_gucs(out);
                    self.txn = b'I';
                    self.portals.clear();
                    out.extend_from_slice(&proto::command_complete("ROLLBACK"));
                }
            }
            "SAVEPOINT" => out.extend_from_slice(&proto::command_complete("SAVEPOINT")),
            "RELEASE" => out.extend_from_slice(&proto::command_complete("RELEASE")),
            "SET" => return self.exec_set(st, out),
            "RESET" => {
                let what = w.get(1).cloned().unwrap_or("");
                match what {
                    "ALL" => {
                        let defaults = self.defaults.clone();
                        for (k, v) in defaults {
                            if k == "session_authorization" {
                                continue;
                            }
                            self.assign(&k, &v, out);
                        }
                        let extra: Vec<String> = self.gucs.keys().filter(|k| !self.defaults.contains_key(*k)).cloned().collect();
                        for k in extra {
                            self.gucs.remove(&k);
                        }
                    }
                    "ROLE" => self.role_set = false,
                    "SESSION" => self.role_set = false,
                    other => {
                        let k = canon(other);
                        match self.defaults.get(&k).cloned() {
                            Some(v) => self.assign(&k, &v, out),
                            None => {
                                self.gucs.remove(&k);
                            }
                        }
                    }
                }
                out.extend_from_slice(&proto::command_complete("RESET"));
            }
            "DISCARD" => {
                if w.get(1) == Some(&"ALL") {
                    let defaults = self.defaults.clone();
                    for (k, v) in defaults {
                        self.assign(&k, &v, out);
                    }
                    self.sql_prepared.clear();
                    self.stmts.clear();
                    self.role_set = false;
                }
                out.extend_from_slice(&proto::command_complete(&format!("DISCARD {}", w.get(1).cloned().unwrap_or("ALL"))));
            }
            "SHOW" => {
                let k = canon(w.get(1).cloned().unwrap_or(""));
                let v = self.gucs.get(&k).cloned().unwrap_or_default();
                if simple {
                    out.extend_from_slice(&proto::row_description(&[&k]));
                }
                out.extend_from_slice(&proto::data_row(&[v.as_bytes()]));
                out.extend_from_slice(&proto::command_complete("SHOW"));
            }
            "PREPARE" => {
                if w.get(1) == Some(&"TRANSACTION") {
                    out.extend_from_slice(&proto::command_complete("PREPARE TRANSACTION"));
                } else {
                    let name = w.get(1).cloned().unwrap_or("").to_ascii_lowercase();
                    if self.sql_prepared.contains_key(&name) || self.stmts.contains_key(&name) {
                        self.ev(EvKind::ProtoErr { code: "42P05".into(), tag: st.tag });
                        out.extend_from_slice(&proto::error_response("ERROR", "42P05", "prepared statement already exists"));
                        self.fail_txn();
                        return Flow::Error;
                    }
                    self.sql_prepared.insert(name, st.text.clone());
                    out.extend_from_slice(&proto::command_complete("PREPARE"));
                }
            }
            "EXECUTE" => {
                let name = w.get(1).cloned().unwrap_or("").to_ascii_lowercase();
                if !self.sql_prepared.contains_key(&name) {
                    self.ev(EvKind::ProtoErr { code: "26000".into(), tag: st.tag });
                    out.extend_from_slice(&proto::error_response("ERROR", "26000", "prepared statement does not exist"));
                    self.fail_txn();
                    return Flow::Error;
                }
                return self.rows_reply(st, out, simple);
            }
            "DEALLOCATE" => {
                let mut i = 1;
                if w.get(1) == Some(&"PREPARE") {
                    i = 2;
                }
                if w.get(i) == Some(&"ALL") {
                    self.sql_prepared.clear();
                    self.stmts.retain(|k, _| k.is_empty());
                    out.extend_from_slice(&proto::command_complete("DEALLOCATE ALL"));
                } else {
                    let name = w.get(i).cloned().unwrap_or("").to_ascii_lowercase();
                    self.sql_prepared.remove(&name);
                    out.extend_from_slice(&proto::command_complete("DEALLOCATE"));
                }
            }
            "COPY" => {
                let to_stdout = w.windows(2).any(|x| x[0] == "TO" && x[1] == "STDOUT") || text_has(&st.text, "TO STDOUT");
                let from_stdin = text_has(&st.text, "FROM STDIN");
                if from_stdin {
                    self.copy = 1;
                    self.copy_tag = st.tag;
                    self.copy_rows = 0;
                    out.extend_from_slice(&proto::copy_in_response());
                    return Flow::CopyIn;
                } else if to_stdout {
                    let (n, len) = d.copyout.unwrap_or((d.rows.unwrap_or(1), 16));
                    out.extend_from_slice(&proto::copy_out_response());
                    for i in 0..n {
                        if let Some(f) = self.emit_row_events(&d, i, out) {
                            return f;
                        }
                        let mut v = format!(
                            "{}#{}|{}|{}",
                            self.label,
                            self.conn,
                            st.tag.map(|t| t.short()).unwrap_or_else(|| "-".into()),
                            i
                        )
                        .into_bytes();
                        if v.len() < len {
                            v.resize(len, b'y');
                        }
                        v.push(b'\n');
                        out.extend_from_slice(&proto::copy_data(&v));
                    }
                    if let Some(f) = self.emit_row_events(&d, n, out) {
                        return f;
                    }
                    out.extend_from_slice(&proto::copy_done());
                    out.extend_from_slice(&proto::command_complete(&format!("COPY {}", n)));
                } else {
                    out.extend_from_slice(&proto::command_complete("COPY 0"));
                }
            }
            "INSERT" | "UPDATE" | "DELETE" | "MERGE" => {
                if text_has(&st.text, "RETURNING") {
                    return self.rows_reply(st, out, simple);
                }
                if let Some(f) = self.emit_row_events(&d, 0, out) {
                    return f;
                }
                let n = d.rows.unwrap_or(1);
                let tag = if kw == "INSERT" { format!("INSERT 0 {}", n) } else { format!("{} {}", kw, n) };
                out.extend_from_slice(&proto::command_complete(&tag));
            }
            "CREATE" | "DROP" | "ALTER" | "TRUNCATE" | "GRANT" | "REVOKE" | "COMMENT" | "VACUUM" | "ANALYZE" | "LOCK"
            | "LISTEN" | "NOTIFY" | "UNLISTEN" | "CALL" | "DO" | "REINDEX" | "CLUSTER" | "REFRESH" | "CHECKPOINT"
            | "DECLARE" | "CLOSE" | "MOVE" | "SECURITY" | "IMPORT" => {
                if let Some(f) = self.emit_row_events(&d, 0, out) {
                    return f;
                }
                let tag = match kw {
                    "CREATE" | "DROP" | "ALTER" => {
                        let mut obj = w.get(1).cloned().unwrap_or("").to_string();
                        if ["TEMP", "TEMPORARY", "UNLOGGED", "UNIQUE", "OR", "MATERIALIZED"].contains(&obj.as_str()) {
                            obj = w.iter().skip(2).find(|x| !["REPLACE", "OR", "TABLE"].contains(x) || **x == "TABLE").cloned().unwrap_or("TABLE").to_string();
                        }
                        format!("{} {}", kw, obj)
                    }
                    "TRUNCATE" => "TRUNCATE TABLE".into(),
                    "LOCK" => "LOCK TABLE".into(),
                    "DECLARE" => "DECLARE CURSOR".into(),
                    "CLOSE" => "CLOSE CURSOR".into(),
                    o => o.to_string(),
                };
                out.extend_from_slice(&proto::command_complete(&tag));
            }
            _ => return self.rows_reply(st, out, simple),
        }
        Flow::Continue
    }

    fn rows_reply(&mut self, st: &Stmt, out: &mut Vec<u8>, simple: bool) -> Flow {
        let d = st.directive.clone();
        let total = d.rows.unwrap_or(1);
        // auth_query support: answer pgcat's lookup with the configured hash
        let aq: Vec<(String, String)> = self.cfg.auth_query.lock().unwrap().iter().map(|(a, b)| (a.clone(), b.clone())).collect();
        if st.tag.is_none() && !aq.is_empty() && text_has(&st.text, "pg_shadow") {
            for (u, h) in &aq {
                if st.text.contains(&format!("'{}'", u)) {
                    out.extend_from_slice(&proto::row_description(&["usename", "passwd"]));
                    out.extend_from_slice(&proto::data_row(&[u.as_bytes(), h.as_bytes()]));
                    out.extend_from_slice(&proto::command_complete("SELECT 1"));
                    return Flow::Continue;
                }
            }
            out.extend_from_slice(&proto::row_description(&["usename", "passwd"]));
            out.extend_from_slice(&proto::command_complete("SELECT 0"));
            return Flow::Continue;
        }
        if simple {
            // an error before the first row precedes RowDescription, as in PostgreSQL
            if matches!(d.err_at, Some((0, _))) {
                if let Some(f) = self.emit_row_events(&d, 0, out) {
                    return f;
                }
            }
            out.extend_from_slice(&proto::row_description(&["v"]));
        }
        for i in 0..total {
            if let Some(f) = self.emit_row_events(&d, i, out) {
                return f;
            }
            out.extend_from_slice(&self.row(st, i));
        }
        if let Some(f) = self.emit_row_events(&d, total, out) {
            return f;
        }
        let kw = st.words.first().map(|s| s.as_str()).unwrap_or("");
        let tag = match kw {
            "INSERT" => format!("INSERT 0 {}", total),
            "UPDATE" | "DELETE" | "MERGE" => format!("{} {}", kw, total),
            "FETCH" => format!("FETCH {}", total),
            "EXPLAIN" => "EXPLAIN".to_string(),
            _ => format!("SELECT {}", total),
        };
        out.extend_from_slice(&proto::command_complete(&tag));
        Flow::Continue
    }

    fn exec_set(&mut self, st: &Stmt, out: &mut Vec<u8>) -> Flow {
        // SET [SESSION|LOCAL] name {TO|=} value | SET ROLE x | SET SESSION AUTHORIZATION x | SET TRANSACTION ...
        let text = strip_leading_comments(&st.text);
        let mut rest = text[3..].trim_start();
        let mut local = false;
        let upper = rest.to_ascii_uppercase();
        if upper.starts_with("LOCAL ") {
            local = true;
            rest = rest[6..].trim_start();
        } else if upper.starts_with("SESSION ") && !upper.starts_with("SESSION AUTHORIZATION") {
            rest = rest[8..].trim_start();
        }
        let upper = rest.to_ascii_uppercase();
        if upper.starts_with("ROLE ") || upper == "ROLE" {
            let v = rest[4..].trim();
            self.role_set = !(v.eq_ignore_ascii_case("none") || v.eq_ignore_ascii_case("'none'"));
            out.extend_from_slice(&proto::command_complete("SET"));
            return Flow::Continue;
        }
        if upper.starts_with("SESSION AUTHORIZATION") {
            self.role_set = true;
            out.extend_from_slice(&proto::command_complete("SET"));
            return Flow::Continue;
        }
        if upper.starts_with("TRANSACTION") || upper.starts_with("CONSTRAINTS") {
            out.extend_from_slice(&proto::command_complete("SET"));
            return Flow::Continue;
        }
        // name
        let name_end = rest.find(|c: char| c.is_whitespace() || c == '=').unwrap_or(rest.len());
        let name = rest[..name_end].to_string();
        let mut after = rest[name_end..].trim_start();
        if let Some(a) = after.strip_prefix('=') {
            after = a;
        } else if after.len() >= 2 && after[..2].eq_ignore_ascii_case("TO") {
            after = &after[2..];
        } else {
            return self.syntax_error(out);
        }
        let scs = self.gucs.get("standard_conforming_strings").map(|v| v == "on").unwrap_or(true);
        let value = match sqllex::parse_set_value(after, scs) {
            Some(v) => v,
            None => return self.syntax_error(out),
        };
        if name.is_empty() || !name.chars().all(|c| c.is_ascii_alphanumeric() || c == '_' || c == '.') {
            return self.syntax_error(out);
        }
        let k = canon(&name);
        let value = if value.eq_ignore_ascii_case("default") && !after.trim_start().starts_with('\'') {
            self.defaults.get(&k).cloned().unwrap_or_default()
        } else {
            value
        };
        if self.txn != b'I' || local {
            self.txn_touched.insert(k.clone());
            if local && self.txn == b'I' {
                // SET LOCAL outside a transaction block has no effect (PostgreSQL warns)
                out.extend_from_slice(&proto::notice_response("SET LOCAL can only be used in transaction blocks"));
                out.extend_from_slice(&proto::command_complete("SET"));
                self.txn_touched.remove(&k);
                return Flow::Continue;
            }
        }
        self.assign(&k, &value, out);
        out.extend_from_slice(&proto::command_complete("SET"));
        Flow::Continue
    }

    fn syntax_error(&mut self, out: &mut Vec<u8>) -> Flow {
        out.extend_from_slice(&proto::error_response("ERROR", "42601", "syntax error"));
        self.fail_txn();
        Flow::Error
    }

    fn assign(&mut self, k: &str, v: &str, out: &mut Vec<u8>) {
        let old = self.gucs.insert(k.to_string(), v.to_string());
        if old.as_deref() != Some(v) {
            let disp = display_name(k);
            if REPORTED.contains(&disp.as_str()) {
                out.extend_from_slice(&proto::parameter_status(&disp, v));
            }
        }
    }

    fn rollback_gucs(&mut self, out: &mut Vec<u8>) {
        if let Some(saved) = self.txn_saved.take() {
            let keys: Vec<String> = self.gucs.keys().cloned().collect();
            for k in keys {
                match saved.get(&k) {
                    Some(v) => {
                        let v = v.clone();
                        self.assign(&k, &v, out);
                    }
                    None => {
                        self.gucs.remove(&k);
                    }
                }
            }
        }
        self.txn_touched.clear();
    }
}

enum Flow {
    Continue,
    Error,
    CopyIn,
    #[allow(dead_code)]
    Close,
}

fn merge_dir(acc: &mut Directive, d: &Directive) {
    if d.hold {
        acc.hold = true;
    }
    if d.hang {
        acc.hang = true;
    }
    if !d.chunks.is_empty() {
        acc.chunks = d.chunks.clone();
    }
    if d.close_at.is_some() {
        acc.close_at = d.close_at;
    }
    if d.hang_after.is_some() {
        acc.hang_after = d.hang_after;
    }
    acc.delay_ms = acc.delay_ms.max(d.delay_ms);
}

fn is_txn_exit(st: &Stmt) -> bool {
    matches!(st.words.first().map(|s| s.as_str()), Some("ROLLBACK") | Some("ABORT") | Some("COMMIT") | Some("END"))
}

fn is_copy(st: &Stmt) -> bool {
    st.words.first().map(|s| s.as_str()) == Some("COPY")
}

fn returns_rows(st: &Stmt) -> bool {
    let kw = st.words.first().map(|s| s.as_str()).unwrap_or("");
    match kw {
        "SELECT" | "VALUES" | "WITH" | "TABLE" | "SHOW" | "FETCH" | "EXPLAIN" | "EXECUTE" | "(" => true,
        "INSERT" | "UPDATE" | "DELETE" | "MERGE" => text_has(&st.text, "RETURNING"),
        _ => false,
    }
}

fn text_has(text: &str, needle: &str) -> bool {
    text.to_ascii_uppercase().contains(&needle.to_ascii_uppercase())
}

fn strip_leading_comments(s: &str) -> &str {
    let mut r = s.trim_start();
    loop {
        if r.starts_with("/*") {
            match r.find("*/") {
                Some(p) => r = r[p + 2..].trim_start(),
                None => return r,
            }
        } else if r.starts_with("--") {
            match r.find('\n') {
                Some(p) => r = r[p + 1..].trim_start(),
                None => return "",
            }
        } else {
            return r;
        }
    }
}

/// Harness tags inside text the lexer could not split.
pub fn scan_tags(sql: &str) -> Vec<Tag> {
    let mut out = vec![];
    let mut rest = sql;
    while let Some(p) = rest.find("/*c") {
        let r = &rest[p + 2..];
        if let Some(e) = r.find("*/") {
            if let Some(t) = Tag::parse_short(&r[..e]) {
                out.push(t);
            }
            rest = &r[e + 2..];
        } else {
            break;
        }
    }
    out
}

/// CopyData payloads generated by the harness start with "c<k>.s<n>:".
fn scan_copy_tags(body: &[u8]) -> Vec<Tag> {
    let s = String::from_utf8_lossy(&body[..body.len().min(32)]).to_string();
    match s.split_once(':') {
        Some((a, _)) => Tag::parse_short(a).into_iter().collect(),
        None => vec![],
    }
}

/// The closed set of simple queries pgcat itself sends to a backend.
pub fn is_pgcat_own_query(sql: &str) -> bool {
    let s = sql.trim();
    if s == ";" || s == "ROLLBACK" || s == "DISCARD ALL" {
        return true;
    }
    if s.starts_with("RESET ROLE;") {
        let rest = &s["RESET ROLE;".len()..];
        return rest.split(';').all(|p| matches!(p.trim(), "" | "RESET ALL" | "DEALLOCATE ALL"));
    }
    if s.starts_with("SET ") && s.ends_with(';') {
        // sync_parameters: SET <tracked> TO '<v>'; ...
        return TRACKED.iter().any(|t| s.starts_with(&format!("SET {} TO '", t)));
    }
    false
}

/// Summaries used by several oracles.
pub fn conn_events(log: &[Event], conn: u64) -> Vec<&Event> {
    log.iter().filter(|e| e.conn == conn).collect()
}

/// BackendKeyData the mock hands out for a session (deterministic, so oracles can recompute it).
/// Every third backend session reports a negative process id (the field is a plain Int32 on the wire; other poolers and
/// proxies in front of PostgreSQL hand out such values).
pub fn pid_for(server: usize, conn: u64) -> i32 {
    let p = (server as i32 + 1) * 100_000 + conn as i32;
    if conn % 3 == 2 {
        -p
    } else {
        p
    }
}
pub fn key_for(conn: u64) -> i32 {
    (conn as i32).wrapping_mul(0x9E37_79B1u32 as i32) ^ 0x5bd1_e995
}
