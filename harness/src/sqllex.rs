//! Minimal PostgreSQL lexer for the mock backend: statement splitting that respects quoting and
//! comments, first-keyword extraction, and extraction of harness tags / reply directives from
//! comments.  Written from the PostgreSQL lexical-structure documentation.

use serde::{Deserialize, Serialize};

#[derive(Clone, Copy, Debug, PartialEq, Eq, Hash, PartialOrd, Ord, Serialize, Deserialize)]
pub struct Tag {
    pub client: u32,
    pub stmt: u32,
}

impl Tag {
    pub fn render(&self) -> String {
        format!("/*c{}.s{}*/", self.client, self.stmt)
    }
    pub fn short(&self) -> String {
        format!("c{}.s{}", self.client, self.stmt)
    }
    pub fn parse_short(s: &str) -> Option<Tag> {
        let s = s.strip_prefix('c')?;
        let (a, b) = s.split_once(".s")?;
        Some(Tag { client: a.parse().ok()?, stmt: b.parse().ok()? })
    }
}

#[derive(Clone, Debug, Default, PartialEq)]
pub struct Directive {
    pub rows: Option<usize>,
    pub rowlen: Vec<usize>,
    pub notice_at: Vec<usize>,
    pub pstatus_at: Vec<(usize, String, String)>,
    pub err_at: Option<(usize, String)>,
    pub copyout: Option<(usize, usize)>,
    pub chunks: Vec<usize>,
    pub hold: bool,
    pub hang: bool,
    pub close_at: Option<usize>,
    pub delay_ms: u64,
    pub failparse: bool,
    pub suspend: bool,
    /// pad every NoticeResponse message text to this many bytes
    pub notice_len: usize,
    /// write this many reply bytes, then stop answering for ever
    pub hang_after: Option<usize>,
    /// raw bytes (given in hex) quoted inside the message of the directed ErrorResponse, the way PostgreSQL quotes an offending
    /// identifier in the client's encoding (LATIN1, SQL_ASCII): not necessarily UTF-8
    pub err_raw: Vec<u8>,
    /// the first Parse of this statement text on a backend is rejected (relation does not exist yet), later ones succeed
    pub failonce: bool,
}

impl Directive {
    pub fn parse(text: &str) -> Directive {
        let mut d = Directive::default();
        for tok in text.split_whitespace() {
            let (k, v) = match tok.split_once('=') {
                Some((k, v)) => (k, v),
                None => (tok, ""),
            };
            match k {
                "rows" => d.rows = v.parse().ok(),
                "rowlen" => d.rowlen = v.split(',').filter_map(|x| x.parse().ok()).collect(),
                "notice" => d.notice_at.extend(v.split(',').filter_map(|x| x.parse::<usize>().ok())),
                "pstatus" => {
                    let p: Vec<&str> = v.splitn(3, ':').collect();
                    if p.len() == 3 {
                        if let Ok(i) = p[0].parse() {
                            d.pstatus_at.push((i, p[1].to_string(), p[2].to_string()));
                        }
                    }
                }
                "err" => {
                    let p: Vec<&str> = v.splitn(2, ':').collect();
                    if let Ok(i) = p[0].parse() {
                        d.err_at = Some((i, p.get(1).unwrap_or(&"XX000").to_string()));
                    }
                }
                "copyout" => {
                    let p: Vec<&str> = v.splitn(2, ':').collect();
                    if let Ok(n) = p[0].parse() {
                        d.copyout = Some((n, p.get(1).and_then(|x| x.parse().ok()).unwrap_or(16)));
                    }
                }
                "chunks" => d.chunks = v.split(',').filter_map(|x| x.parse().ok()).filter(|x| *x > 0).collect(),
                "hold" => d.hold = true,
                "hang" => d.hang = true,
                "close" => d.close_at = v.parse().ok(),
                "delay" => d.delay_ms = v.parse().unwrap_or(0),
                "failparse" => d.failparse = true,
                "failonce" => d.failonce = true,
                "suspend" => d.suspend = true,
                "noticelen" => d.notice_len = v.parse().unwrap_or(0),
                "hangafter" => d.hang_after = v.parse().ok(),
                "errraw" => d.err_raw = (0..v.len() / 2).filter_map(|i| u8::from_str_radix(&v[2 * i..2 * i + 2], 16).ok()).collect(),
                _ => {}
            }
        }
        d
    }
}

#[derive(Clone, Debug, Default)]
pub struct Stmt {
    /// statement text as received (without the terminating semicolon)
    pub text: String,
    /// upper-cased keywords (comments and whitespace skipped), at most the first six
    pub words: Vec<String>,
    pub tag: Option<Tag>,
    pub directive: Directive,
}

#[derive(Debug)]
pub enum LexError {
    UnterminatedString,
    UnterminatedComment,
    UnterminatedIdent,
    UnterminatedDollar,
}

/// Split a simple-query string into statements.
pub fn split_statements(sql: &str, standard_conforming_strings: bool) -> Result<Vec<Stmt>, LexError> {
    let b = sql.as_bytes();
    let mut i = 0;
    let mut start = 0;
    let mut out = vec![];
    let mut comments: Vec<String> = vec![];
    let mut words: Vec<String> = vec![];
    let mut nonblank = false;

    macro_rules! finish {
        ($end:expr) => {{
            if nonblank || !comments.is_empty() {
                let mut st = Stmt { text: sql[start..$end].to_string(), words: std::mem::take(&mut words), ..Default::default() };
                for c in comments.drain(..) {
                    apply_comment(&c, &mut st);
                }
                // a statement made only of comments/whitespace is still reported (as an empty one)
                out.push(st);
            }
            nonblank = false;
        }};
    }

    while i < b.len() {
        let c = b[i];
        match c {
            b';' => {
                finish!(i);
                i += 1;
                start = i;
            }
            b'\'' => {
                nonblank = true;
                // E'' strings honour backslash escapes; plain ones only when scs is off
                let escape = !standard_conforming_strings
                    || (i > 0 && (b[i - 1] == b'E' || b[i - 1] == b'e') && (i < 2 || !is_ident_char(b[i - 2])));
                i += 1;
                loop {
                    if i >= b.len() {
                        return Err(LexError::UnterminatedString);
                    }
                    if b[i] == b'\\' && escape {
                        i += 2;
                        continue;
                    }
                    if b[i] == b'\'' {
                        if i + 1 < b.len() && b[i + 1] == b'\'' {
                            i += 2;
                            continue;
                        }
                        i += 1;
                        break;
                    }
                    i += 1;
                }
                if words.len() < 8 {
                    words.push("'".into());
                }
            }
            b'"' => {
                nonblank = true;
                i += 1;
                loop {
                    if i >= b.len() {
                        return Err(LexError::UnterminatedIdent);
                    }
                    if b[i] == b'"' {
                        if i + 1 < b.len() && b[i + 1] == b'"' {
                            i += 2;
                            continue;
                        }
                        i += 1;
                        break;
                    }
                    i += 1;
                }
                if words.len() < 8 {
                    words.push("\"".into());
                }
            }
            b'-' if i + 1 < b.len() && b[i + 1] == b'-' => {
                while i < b.len() && b[i] != b'\n' {
                    i += 1;
                }
            }
            b'/' if i + 1 < b.len() && b[i + 1] == b'*' => {
                let cstart = i + 2;
                let mut depth = 1;
                i += 2;
                loop {
                    if i + 1 >= b.len() {
                        return Err(LexError::UnterminatedComment);
                    }
                    if b[i] == b'/' && b[i + 1] == b'*' {
                        depth += 1;
                        i += 2;
                    } else if b[i] == b'*' && b[i + 1] == b'/' {
                        depth -= 1;
                        i += 2;
                        if depth == 0 {
                            break;
                        }
                    } else {
                        i += 1;
                    }
                }
                comments.push(sql[cstart..i - 2].to_string());
            }
            b'$' => {
                nonblank = true;
                // dollar quote?  $tag$ ... $tag$ ; otherwise a parameter like $1
                let mut j = i + 1;
                while j < b.len() && (b[j].is_ascii_alphanumeric() || b[j] == b'_') {
                    j += 1;
                }
                let is_param = j > i + 1 && b[i + 1..j].iter().all(|x| x.is_ascii_digit());
                if j < b.len() && b[j] == b'$' && !is_param {
                    let delim = &sql[i..=j];
                    match sql[j + 1..].find(delim) {
                        Some(p) => i = j + 1 + p + delim.len(),
                        None => return Err(LexError::UnterminatedDollar),
                    }
                } else {
                    i = j.max(i + 1);
                }
            }
            c if c.is_ascii_whitespace() => i += 1,
            c if c.is_ascii_alphabetic() || c == b'_' => {
                nonblank = true;
                let s = i;
                while i < b.len() && is_ident_char(b[i]) {
                    i += 1;
                }
                if words.len() < 8 {
                    // E'..' prefix is not a word of its own
                    if !(i < b.len() && b[i] == b'\'' && (i - s) == 1 && (b[s] == b'E' || b[s] == b'e')) {
                        words.push(sql[s..i].to_ascii_uppercase());
                    }
                }
            }
            _ => {
                nonblank = true;
                if words.len() < 8 {
                    words.push((c as char).to_string());
                }
                i += 1;
                // skip utf-8 continuation bytes
                while i < b.len() && (b[i] & 0xC0) == 0x80 {
                    i += 1;
                }
            }
        }
    }
    finish!(b.len());
    Ok(out)
}

fn is_ident_char(c: u8) -> bool {
    c.is_ascii_alphanumeric() || c == b'_' || c >= 0x80
}

fn apply_comment(c: &str, st: &mut Stmt) {
    let t = c.trim();
    if let Some(rest) = t.strip_prefix('@') {
        st.directive = Directive::parse(rest);
    } else if let Some(tag) = Tag::parse_short(t) {
        st.tag = Some(tag);
    }
}

/// Parse the value part of `SET name {TO|=} value` ; returns None on a syntax error.
pub fn parse_set_value(rest: &str, scs: bool) -> Option<String> {
    let r = rest.trim();
    if r.is_empty() {
        return None;
    }
    if let Some(body) = r.strip_prefix("E'").or_else(|| r.strip_prefix("e'")) {
        return unquote(body, true);
    }
    if let Some(body) = r.strip_prefix('\'') {
        return unquote(body, !scs);
    }
    // bare word(s); comments were not stripped here, so cut at a comment start
    let r = match r.find("/*") {
        Some(p) => r[..p].trim(),
        None => r,
    };
    if r.is_empty() || r.contains('\'') {
        return None;
    }
    Some(r.to_string())
}

fn unquote(body: &str, escapes: bool) -> Option<String> {
    let mut out = String::new();
    let mut it = body.chars().peekable();
    loop {
        let c = it.next()?;
        if c == '\\' && escapes {
            out.push(it.next()?);
        } else if c == '\'' {
            if it.peek() == Some(&'\'') {
                it.next();
                out.push('\'');
            } else {
                break;
            }
        } else {
            out.push(c);
        }
    }
    // only whitespace or comments may follow
    let rest: String = it.collect();
    let rest = rest.trim();
    if rest.is_empty() || rest.starts_with("/*") || rest.starts_with("--") {
        Some(out)
    } else {
        None
    }
}

#[cfg(test)]
mod t {
    use super::*;
    #[test]
    fn split() {
        let v = split_statements("select 1; /*c1.s2*/ select ';' /*@ rows=3 hold */ ; ;", true).unwrap();
        assert_eq!(v.len(), 2);
        assert_eq!(v[1].tag, Some(Tag { client: 1, stmt: 2 }));
        assert_eq!(v[1].directive.rows, Some(3));
        assert!(v[1].directive.hold);
        assert!(split_statements("SET application_name TO 'it's';", true).is_err());
        assert_eq!(parse_set_value("'it''s'", true).unwrap(), "it's");
    }
}
