//! C19 — plugin verdicts are enforced before anything reaches a server.

use crate::cli::ReadEnd;
use crate::engine::{Outcome, Part, PartReport, Tier, WorkerCtx};
use crate::mock::EvKind;
use crate::pgc::{self, PgcatConfig, ServerDef};
use crate::proto;
use crate::sqllex::Tag;
use crate::wire::{self, BackendSpec, Env};
use bytes::BytesMut;
#[cfg(feature = "lib")]
use pgcat::config::{Plugins, TableAccess};
#[cfg(feature = "lib")]
use pgcat::plugins::PluginOutput;
#[cfg(feature = "lib")]
use pgcat::pool::PoolSettings;
#[cfg(feature = "lib")]
use pgcat::query_router::QueryRouter;
use proptest::prelude::*;
use serde::{Deserialize, Serialize};
use sqlparser::dialect::PostgreSqlDialect;
use sqlparser::parser::Parser;
use std::time::Duration;

pub fn check(tier: Tier, seed: u64, replay: (Option<&str>, Option<&str>)) -> Vec<PartReport> {
    #[cfg(feature = "lib")]
    {
        crate::run_parts!(tier, seed, replay, [LibPart, WirePart])
    }
    #[cfg(not(feature = "lib"))]
    {
        let mut v = vec![crate::engine::lib_unavailable("C19", "lib")];
        v.extend(crate::run_parts!(tier, seed, replay, [WirePart]));
        v
    }
}

pub const POSITIONS: u8 = 16;
pub const SPELLINGS: u8 = 13;

/// (spelling text, does PostgreSQL resolve it to the listed table `secrets`?)
pub fn spelling(i: u8) -> (&'static str, bool) {
    match i % SPELLINGS {
        0 => ("secrets", true),
        1 => ("SECRETS", true),
        2 => ("Secrets", true),
        3 => ("\"secrets\"", true),
        4 => ("public.secrets", true),
        5 => ("PUBLIC.Secrets", true),
        6 => ("\"public\".\"secrets\"", true),
        7 => ("public.\"secrets\"", true),
        // controls: other relations
        8 => ("\"Secrets\"", false),
        9 => ("\"SECRETS\"", false),
        10 => ("secrets2", false),
        11 => ("my_secrets", false),
        _ => ("other", false),
    }
}

pub fn spelling_name(i: u8) -> &'static str {
    ["lower", "upper", "mixed", "quoted_exact", "schema", "schema_upper", "quoted_schema_and_table", "schema_quoted_table", "ctl_quoted_mixed", "ctl_quoted_upper", "ctl_suffix", "ctl_prefix", "ctl_other"][(i % SPELLINGS) as usize]
}

pub fn position_name(p: u8) -> &'static str {
    ["from", "join", "subselect", "cte_body", "insert_target", "update_target", "delete_target", "delete_using", "copy", "update_from", "insert_select", "derived", "exists", "setop", "cte_own_body_shadowed", "cte_earlier_sibling_shadowed"][(p % POSITIONS) as usize]
}

pub fn statement(position: u8, t: &str) -> String {
    match position % POSITIONS {
        0 => format!("SELECT * FROM {} WHERE id = 1", t),
        1 => format!("SELECT * FROM other o JOIN {} s ON o.id = s.id", t),
        2 => format!("SELECT * FROM other WHERE id IN (SELECT id FROM {})", t),
        3 => format!("WITH c AS (SELECT * FROM {}) SELECT * FROM c", t),
        4 => format!("INSERT INTO {} (id) VALUES (1)", t),
        5 => format!("UPDATE {} SET v = 1 WHERE id = 2", t),
        6 => format!("DELETE FROM {} WHERE id = 1", t),
        7 => format!("DELETE FROM other USING {} AS s WHERE other.id = s.id", t),
        8 => format!("COPY {} TO STDOUT", t),
        9 => format!("UPDATE other SET v = s.v FROM {} s WHERE other.id = s.id", t),
        10 => format!("INSERT INTO other SELECT * FROM {}", t),
        11 => format!("SELECT * FROM (SELECT * FROM {}) d", t),
        12 => format!("SELECT 1 WHERE EXISTS (SELECT 1 FROM {})", t),
        13 => format!("SELECT id FROM other UNION SELECT id FROM {}", t),
        // a (non-recursive) CTE is not visible in its own body nor in earlier siblings: these still read the real table
        14 => format!("WITH secrets AS (SELECT * FROM {}) SELECT * FROM secrets", t),
        _ => format!("WITH a AS (SELECT * FROM {}), secrets AS (SELECT 1) SELECT * FROM a, secrets", t),
    }
}

/// statements that only *mention* the word in a non-relation position (never must-deny)
pub fn decoy(i: u8) -> &'static str {
    match i % 5 {
        0 => "SELECT secrets FROM other",
        1 => "SELECT * FROM other AS secrets",
        2 => "SELECT 'secrets' FROM other",
        3 => "WITH secrets AS (SELECT 1) SELECT * FROM secrets",
        _ => "SELECT * FROM other WHERE note = 'select * from secrets'",
    }
}

#[derive(Clone, Debug, Serialize, Deserialize)]
pub enum Item {
    /// statement that mentions the table at `position` in `spelling`
    Table { position: u8, spelling: u8 },
    Decoy(u8),
    Neutral,
}

impl Item {
    pub fn sql(&self) -> String {
        match self {
            Item::Table { position, spelling: sp } => statement(*position, spelling(*sp).0),
            Item::Decoy(i) => decoy(*i).to_string(),
            Item::Neutral => "SELECT * FROM other WHERE id = 7".to_string(),
        }
    }
    pub fn must_deny(&self) -> bool {
        matches!(self, Item::Table { spelling: sp, .. } if spelling(*sp).1)
    }
}

fn item_strategy() -> BoxedStrategy<Item> {
    prop_oneof![
        6 => (0..POSITIONS, 0..SPELLINGS).prop_map(|(position, spelling)| Item::Table { position, spelling }),
        1 => (0u8..5).prop_map(Item::Decoy),
        3 => Just(Item::Neutral),
    ]
    .boxed()
}

thread_local! {
    static RT: tokio::runtime::Runtime = tokio::runtime::Builder::new_current_thread().build().unwrap();
}

// ------------------------------------------------------------------------------ lib part

#[derive(Clone, Debug, Serialize, Deserialize)]
pub struct LibCase {
    pub enabled: bool,
    pub items: Vec<Item>,
    pub parse_msg: bool,
}

#[cfg(feature = "lib")]
pub struct LibPart;

#[cfg(feature = "lib")]
impl Part for LibPart {
    type Case = LibCase;
    fn prop(&self) -> &'static str {
        "C19"
    }
    fn name(&self) -> &'static str {
        "lib"
    }
    fn wire(&self) -> bool {
        false
    }
    fn rule(&self) -> String {
        "messages of 1..3 statements, each mentioning the listed table `secrets` at one of 16 positions (FROM, JOIN, sub-select, CTE body, INSERT/UPDATE/DELETE target, DELETE USING, COPY, UPDATE FROM, INSERT..SELECT, derived table, EXISTS, set operation, body of a CTE that shadows the table name, earlier sibling of such a CTE) in one of 8 resolving spellings (lower, UPPER, Mixed, quoted exact, schema-qualified in 4 variants) or 5 control spellings, or decoys (column/alias/literal/CTE named secrets); plugin enabled or disabled; oracle on QueryRouter::execute_plugins for parser-accepted messages: a must-deny statement anywhere in the message => Deny; disabled => Allow. Non-trivial = spelling other than plain lower case or statement not first in the message".into()
    }
    fn cases(&self, tier: Tier) -> u64 {
        tier.pick(240_000, 4_000_000)
    }
    fn strategy(&self, _tier: Tier) -> BoxedStrategy<LibCase> {
        (prop::bool::weighted(0.85), prop::collection::vec(item_strategy(), 1..4), prop::bool::weighted(0.3))
            .prop_map(|(enabled, items, parse_msg)| LibCase { enabled, items: if parse_msg { vec![items[0].clone()] } else { items }, parse_msg })
            .boxed()
    }
    fn run(&self, c: &LibCase, _ctx: &mut WorkerCtx) -> Outcome {
        let mut o = Outcome::pass();
        let mut qr = QueryRouter::new();
        let settings = PoolSettings {
            query_parser_enabled: true,
            plugins: Some(Plugins { table_access: Some(TableAccess { enabled: c.enabled, tables: vec!["secrets".to_string(), "pg_shadow".to_string()] }), intercept: None, query_logger: None, prewarmer: None }),
            ..Default::default()
        };
        qr.update_pool_settings(&settings);
        let sql = c.items.iter().map(|i| i.sql()).collect::<Vec<_>>().join("; ");
        let msg = if c.parse_msg { proto::parse("", &sql, &[]) } else { proto::query(&sql) };
        let m = BytesMut::from(&msg[..]);
        let ast = match qr.parse(&m) {
            Ok(a) => a,
            Err(_) => {
                o.label("parser_rejected");
                return o;
            }
        };
        let res = std::panic::catch_unwind(std::panic::AssertUnwindSafe(|| RT.with(|rt| rt.block_on(qr.execute_plugins(&ast)))));
        let must = c.items.iter().position(|i| i.must_deny());
        for i in &c.items {
            if let Item::Table { position, spelling: sp } = i {
                o.label(&format!("pos:{}", position_name(*position)));
                o.label(&format!("sp:{}", spelling_name(*sp)));
            }
        }
        o.nontrivial = c.items.iter().enumerate().any(|(k, i)| matches!(i, Item::Table { spelling: sp, .. } if *sp % SPELLINGS != 0 || k > 0));
        match res {
            Err(_) => o.fail("plugin-panic", format!("execute_plugins panicked on {:?}", sql)),
            Ok(Err(e)) => o.fail("plugin-error", format!("execute_plugins failed on {:?}: {:?}", sql, e)),
            Ok(Ok(out)) => {
                let denied = matches!(out, PluginOutput::Deny(_));
                if !c.enabled {
                    if !matches!(out, PluginOutput::Allow) {
                        o.fail("disabled-plugin-blocks", format!("table_access disabled but {:?} -> {:?}", sql, out));
                    }
                } else if let Some(k) = must {
                    if !denied {
                        if let Item::Table { position, spelling: sp } = &c.items[k] {
                            o.fail(
                                &format!("listed-table-allowed:pos={}:sp={}", position_name(*position), spelling_name(*sp)),
                                format!("{:?} refers to the listed table `secrets` (statement {} of the message) but the verdict is {:?}", sql, k, out),
                            );
                        }
                    }
                } else if denied {
                    o.label("over_blocked_control");
                }
            }
        }
        o
    }
}

// ------------------------------------------------------------------------------ wire part

#[derive(Clone, Debug, Serialize, Deserialize)]
pub enum Msg {
    /// simple query with these statements
    Q(Vec<Item>),
    /// extended batch: one Parse/Bind/Execute per item, then Sync
    Batch(Vec<Item>),
    /// the intercept rule's query in some spelling
    Intercept(u8),
    /// the same through the extended protocol: Parse/Bind/Execute/Sync of the rule's query
    InterceptExt(u8),
    /// named statements: Parse n0..nk + Sync, then in a second batch Bind/Execute of each name + Sync
    NamedThenBind(Vec<Item>),
    /// Parse/Bind/Execute of these statements WITHOUT Sync, then a harmless simple query, then the Sync (a message order
    /// real drivers avoid, but any client can produce it); ends the session
    BatchThenQuery(Vec<Item>),
}

#[derive(Clone, Debug, Serialize, Deserialize)]
pub struct WireCase {
    pub enabled: bool,
    pub in_txn: bool,
    pub session_mode: bool,
    pub msgs: Vec<Msg>,
    /// prepared_statements_cache_size > 0
    #[serde(default)]
    pub cache: bool,
}

pub struct WirePart;

impl Part for WirePart {
    type Case = WireCase;
    fn prop(&self) -> &'static str {
        "C19"
    }
    fn name(&self) -> &'static str {
        "wire"
    }
    fn wire(&self) -> bool {
        true
    }
    fn rule(&self) -> String {
        "sessions of 1..6 messages (simple queries of 1..3 statements, Parse/Bind/Execute batches of 1..3 statements, the intercept rule's query in 4 spellings over the simple and the extended protocol, a Parse/Bind/Execute batch whose Sync is preceded by a harmless simple query, named statements parsed in one batch and bound/executed in the next), statement cache on or off, optionally inside BEGIN..ROLLBACK, transaction or session mode, plugins enabled or disabled, against the real binary; oracle: a message containing a must-deny statement is answered with ErrorResponse and none of its statement tags is ever received by a backend; the intercepted query returns exactly the configured rows and is not forwarded; with plugins disabled every tag arrives. Non-trivial = must-deny statement not first in its message, inside a transaction, or in an extended batch".into()
    }
    fn cases(&self, tier: Tier) -> u64 {
        tier.pick(1_200, 16_000)
    }
    fn strategy(&self, _tier: Tier) -> BoxedStrategy<WireCase> {
        let msg = prop_oneof![
            5 => prop::collection::vec(item_strategy(), 1..4).prop_map(Msg::Q),
            4 => prop::collection::vec(item_strategy(), 1..4).prop_map(Msg::Batch),
            1 => (0u8..4).prop_map(Msg::Intercept),
            1 => (0u8..4).prop_map(Msg::InterceptExt),
            2 => prop::collection::vec(item_strategy(), 1..3).prop_map(Msg::NamedThenBind),
            1 => prop::collection::vec(item_strategy(), 1..3).prop_map(Msg::BatchThenQuery),
        ];
        (prop::bool::weighted(0.85), any::<bool>(), prop::bool::weighted(0.25), prop::collection::vec(msg, 1..7), any::<bool>())
            .prop_map(|(enabled, in_txn, session_mode, msgs, cache)| WireCase { enabled, in_txn, session_mode, msgs, cache })
            .boxed()
    }
    fn run(&self, c: &WireCase, ctx: &mut WorkerCtx) -> Outcome {
        wire::run_async(run_wire(c, ctx))
    }
}

const INTERCEPT_SQL: [&str; 4] = [
    "select current_database() as a, current_schemas(false) as b",
    "SELECT current_database() AS a, current_schemas(false) AS b",
    "select   current_database()   as a,\n current_schemas(false) as b",
    "select current_database() as a, current_schemas(true) as b",
];

fn config(mocks: &[crate::mock::MockServer], c: &WireCase) -> PgcatConfig {
    let mut cfg = PgcatConfig::new();
    let servers = vec![ServerDef { host: mocks[0].ip.clone(), port: mocks[0].port, role: "primary".into() }];
    let mut pool = pgc::simple_pool("db", "u", "pw", 2, servers);
    pool.set("query_parser_enabled", "true");
    if c.session_mode {
        pool.set("pool_mode", "\"session\"");
    }
    if c.cache {
        pool.set("prepared_statements_cache_size", "8");
    }
    pool.raw_tail = format!(
        "[pools.db.plugins]\n\n[pools.db.plugins.table_access]\nenabled = {en}\ntables = [\"secrets\", \"pg_shadow\"]\n\n[pools.db.plugins.intercept]\nenabled = {en}\n\n[pools.db.plugins.intercept.queries.0]\nquery = \"select current_database() as a, current_schemas(false) as b\"\nschema = [[\"a\", \"text\"], [\"b\", \"text\"]]\nresult = [[\"${{DATABASE}}\", \"{{public}}\"], [\"row2\", \"\"]]\n",
        en = c.enabled
    );
    cfg.pools.push(pool);
    cfg
}

async fn run_wire(c: &WireCase, ctx: &mut WorkerCtx) -> Outcome {
    let mut o = Outcome::pass();
    let specs = vec![BackendSpec::trust("127.0.0.1", "p0")];
    let env = match Env::start(ctx, &specs, |m| config(m, c)).await {
        Ok(e) => e,
        Err(e) => {
            o.inconclusive = Some(e);
            return o;
        }
    };
    let mut cli = match env.client(1, "u", "db", "pw", &[]).await {
        Ok(c) => c,
        Err(e) => {
            o.inconclusive = Some(format!("login: {}", e));
            env.finish().await;
            return o;
        }
    };
    if c.in_txn {
        let t = cli.tag();
        let (_m, e) = cli.simple(&format!("{} BEGIN", t.render()), wire::T_REPLY).await;
        if !matches!(e, ReadEnd::Ready(_)) {
            o.inconclusive = Some("BEGIN not answered".into());
            env.finish().await;
            return o;
        }
        o.label("in_txn");
    }
    if !c.enabled {
        o.label("plugins_disabled");
    }
    let tag_seen = |env: &Env, t: Tag| env.log().iter().any(|ev| matches!(&ev.kind, EvKind::Rx { tags, .. } if tags.contains(&t)));
    'msgs: for (mi, msg) in c.msgs.iter().enumerate() {
        o.sub_evaluations += 1;
        match msg {
            Msg::Intercept(k) | Msg::InterceptExt(k) => {
                let ext = matches!(msg, Msg::InterceptExt(_));
                let sql = INTERCEPT_SQL[*k as usize % 4];
                let before = env.shared.len();
                let (m, e) = if ext {
                    let mut b = proto::parse("", sql, &[]);
                    b.extend_from_slice(&proto::bind("", "", &[], &[], &[]));
                    b.extend_from_slice(&proto::execute("", 0));
                    b.extend_from_slice(&proto::sync());
                    cli.send(&b).await;
                    o.label("intercept_extended");
                    if !c.in_txn {
                        o.nontrivial = true;
                    }
                    cli.read_until_ready(wire::T_REPLY).await
                } else {
                    cli.simple(sql, wire::T_REPLY).await
                };
                if !matches!(e, ReadEnd::Ready(_)) {
                    o.inconclusive = Some(format!("intercept query ended {:?}", e));
                    break;
                }
                let matches_rule = *k % 4 != 3;
                let forwarded = env.log()[before..].iter().any(|ev| matches!(&ev.kind, EvKind::Rx { code: b'Q' | b'P' | b'B' | b'E', own: false, .. }));
                if c.enabled && matches_rule {
                    o.label("intercepted");
                    let rows: Vec<Vec<Option<Vec<u8>>>> = m.iter().filter(|x| x.code == b'D').filter_map(|x| proto::data_row_cols(&x.body).ok()).collect();
                    let want: Vec<Vec<Option<Vec<u8>>>> = vec![vec![Some(b"db".to_vec()), Some(b"{public}".to_vec())], vec![Some(b"row2".to_vec()), None]];
                    if forwarded {
                        o.fail("intercepted-query-forwarded", format!("{:?} matches the intercept rule but a backend received a query", sql));
                        break;
                    }
                    if rows != want {
                        o.fail("intercept-rows-wrong", format!("{:?} must return the configured rows {:?}, got {:?}", sql, want, rows));
                        break;
                    }
                } else if !forwarded {
                    o.fail("unmatched-query-not-forwarded", format!("{:?} (plugins enabled={}) was not forwarded", sql, c.enabled));
                    break;
                }
            }
            Msg::NamedThenBind(items) => {
                let mut tags = vec![];
                let mut sqls = vec![];
                let mut b1 = vec![];
                let mut b2 = vec![];
                for (k, it) in items.iter().enumerate() {
                    let t = cli.tag();
                    tags.push(t);
                    let sql = format!("{} {}", t.render(), it.sql());
                    let name = format!("n{}_{}", mi, k);
                    b1.extend_from_slice(&proto::parse(&name, &sql, &[]));
                    b2.extend_from_slice(&proto::bind("", &name, &[], &[], &[]));
                    b2.extend_from_slice(&proto::execute("", 0));
                    sqls.push(sql);
                }
                b1.extend_from_slice(&proto::sync());
                b2.extend_from_slice(&proto::sync());
                let accepted = sqls.iter().all(|s| Parser::parse_sql(&PostgreSqlDialect {}, s).is_ok());
                cli.send(&b1).await;
                let (_m1, e1) = cli.read_until_ready(wire::T_REPLY).await;
                let mut session_over = true;
                if matches!(e1, ReadEnd::Ready(_)) {
                    cli.send(&b2).await;
                    let (m2, e2) = cli.read_until_ready(wire::T_REPLY).await;
                    // a Bind of a name the pooler does not know ends the client session (observed behaviour, not part of the property)
                    session_over = !matches!(e2, ReadEnd::Ready(_)) || m2.iter().any(|x| x.code == b'E' && proto::error_message(&x.body).contains("does not exist"));
                }
                tokio::time::sleep(Duration::from_millis(10)).await;
                if accepted && c.enabled {
                    for (k, it) in items.iter().enumerate() {
                        if !it.must_deny() {
                            continue;
                        }
                        o.nontrivial = true;
                        o.label("bind_of_denied_named_statement");
                        if let Item::Table { position, spelling: sp } = it {
                            if tag_seen(&env, tags[k]) {
                                o.fail(
                                    &format!("denied-statement-reached-server:pos={}:sp={}:named-then-bind{}", position_name(*position), spelling_name(*sp), if c.cache { ":cache" } else { "" }),
                                    format!("named Parse of {:?} (+Sync), then Bind/Execute of the names (+Sync): the statement on the listed table (tag {}) was received by a backend", sqls, tags[k].short()),
                                );
                                break 'msgs;
                            }
                        }
                    }
                }
                if session_over || !cli.is_open() {
                    break 'msgs;
                }
            }
            Msg::BatchThenQuery(items) => {
                let mut tags = vec![];
                let mut sqls = vec![];
                let mut b = vec![];
                for it in items {
                    let t = cli.tag();
                    tags.push(t);
                    let sql = format!("{} {}", t.render(), it.sql());
                    b.extend_from_slice(&proto::parse("", &sql, &[]));
                    b.extend_from_slice(&proto::bind("", "", &[], &[], &[]));
                    b.extend_from_slice(&proto::execute("", 0));
                    sqls.push(sql);
                }
                let accepted = sqls.iter().all(|s| Parser::parse_sql(&PostgreSqlDialect {}, s).is_ok());
                let tq = cli.tag();
                b.extend_from_slice(&proto::query(&format!("{} SELECT 1 AS harmless", tq.render())));
                cli.send(&b).await;
                let _ = cli.read_until_ready(Duration::from_millis(1500)).await;
                if cli.is_open() {
                    cli.send(&proto::sync()).await;
                    let _ = cli.read_until_ready(Duration::from_millis(700)).await;
                }
                tokio::time::sleep(Duration::from_millis(20)).await;
                if accepted && c.enabled {
                    if let Some(k) = items.iter().position(|i| i.must_deny()) {
                        o.nontrivial = true;
                        o.label("query_inside_unsynced_batch");
                        if let Item::Table { position, spelling: sp } = &items[k] {
                            for t in &tags {
                                if tag_seen(&env, *t) {
                                    o.fail(
                                        &format!("denied-statement-reached-server:pos={}:sp={}:batch-then-query", position_name(*position), spelling_name(*sp)),
                                        format!("Parse/Bind/Execute of {:?}, a simple query, then Sync: tag {} of the batch with a statement on the listed table was received by a backend", sqls, t.short()),
                                    );
                                    break 'msgs;
                                }
                            }
                        }
                    }
                }
                break 'msgs;
            }
            Msg::Q(items) | Msg::Batch(items) => {
                let is_batch = matches!(msg, Msg::Batch(_));
                let mut tags = vec![];
                let mut sqls = vec![];
                for it in items {
                    let t = cli.tag();
                    tags.push(t);
                    sqls.push(format!("{} {}", t.render(), it.sql()));
                }
                // parser verdict on what the pooler will see
                let accepted = if is_batch {
                    sqls.iter().all(|s| Parser::parse_sql(&PostgreSqlDialect {}, s).is_ok())
                } else {
                    Parser::parse_sql(&PostgreSqlDialect {}, &sqls.join("; ")).is_ok()
                };
                let bytes = if is_batch {
                    let mut b = vec![];
                    for s in &sqls {
                        b.extend_from_slice(&proto::parse("", s, &[]));
                        b.extend_from_slice(&proto::bind("", "", &[], &[], &[]));
                        b.extend_from_slice(&proto::execute("", 0));
                    }
                    b.extend_from_slice(&proto::sync());
                    b
                } else {
                    proto::query(&sqls.join("; "))
                };
                cli.send(&bytes).await;
                let (m, e) = cli.read_until_ready(wire::T_REPLY).await;
                if !matches!(e, ReadEnd::Ready(_)) {
                    o.inconclusive = Some(format!("message {} ended {:?}", mi, e));
                    break;
                }
                let must = items.iter().position(|i| i.must_deny());
                if !accepted {
                    o.label("parser_rejected");
                    continue;
                }
                if let Some(k) = must {
                    if c.enabled {
                        if k > 0 || c.in_txn || is_batch {
                            o.nontrivial = true;
                        }
                        if let Item::Table { position, spelling: sp } = &items[k] {
                            o.label(&format!("pos:{}", position_name(*position)));
                            if *sp % SPELLINGS != 0 {
                                o.nontrivial = true;
                            }
                            let class = format!("pos={}:sp={}:{}{}", position_name(*position), spelling_name(*sp), if is_batch { "batch" } else { "simple" }, if k > 0 { ":later" } else { "" });
                            // give a forwarded statement time to show up: the reply already arrived, so it would be logged by now
                            for t in &tags {
                                if tag_seen(&env, *t) {
                                    o.fail(
                                        &format!("denied-statement-reached-server:{}", class),
                                        format!("message {:?} contains a statement on the listed table but tag {} was received by a backend", sqls, t.short()),
                                    );
                                    break 'msgs;
                                }
                            }
                            if !m.iter().any(|x| x.code == b'E') {
                                o.fail(&format!("no-permission-error:{}", class), format!("message {:?} must be answered with a permission error; got {:?}", sqls, m.iter().map(|x| x.code as char).collect::<String>()));
                                break;
                            }
                        }
                    } else {
                        // disabled: everything is forwarded
                        for t in &tags {
                            if !tag_seen(&env, *t) {
                                o.fail("disabled-plugin-blocks", format!("plugins disabled but statement {} of {:?} never reached a backend", t.short(), sqls));
                                break 'msgs;
                            }
                        }
                    }
                }
                // COPY TO STDOUT etc. leave nothing open; a failed transaction stays failed until the final ROLLBACK
            }
        }
    }
    if c.in_txn && cli.is_open() {
        let _ = cli.simple("ROLLBACK", wire::T_REPLY).await;
    }
    env.finish().await;
    o
}
