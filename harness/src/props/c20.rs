//! C20 — mirroring never affects the primary path.

use crate::cli::ReadEnd;
use crate::engine::{Outcome, Part, PartReport, Tier, WorkerCtx};
use crate::mock::{EvKind, Event, Fault};
use crate::pgc::{MirrorDef, PgcatConfig, PoolDef, ServerDef, ShardDef, UserDef};
use crate::prog::{self, Txn};
use crate::wire::{self, BackendSpec, Env};
use proptest::prelude::*;
use serde::{Deserialize, Serialize};
use std::collections::HashMap;
use std::time::Instant;

pub fn check(tier: Tier, seed: u64, replay: (Option<&str>, Option<&str>)) -> Vec<PartReport> {
    crate::run_parts!(tier, seed, replay, [WirePart])
}

#[derive(Clone, Debug, Serialize, Deserialize, PartialEq)]
pub enum Mode {
    Up,
    /// accepts and closes immediately
    Down,
    /// nothing listens on the port
    DeadPort,
    RefuseAuth,
    HangStartup,
    HangQuery,
    Slow,
    CloseOnMessage,
    ErrorReplies,
    /// stops reading for 750 ms while a client pushes ten 1 MiB statements through the mirrored server, then reads on
    StallThenResume,
}

#[derive(Clone, Debug, Serialize, Deserialize)]
pub struct MirrorSpec {
    pub shard: u8,
    pub target: u8,
    pub mode: Mode,
}

#[derive(Clone, Debug, Serialize, Deserialize)]
pub struct Case {
    pub shards: u8,
    pub replicas: bool,
    pub mirrors: Vec<MirrorSpec>,
    /// (shard the client selects, its transactions)
    pub clients: Vec<(u8, Vec<Txn>)>,
    pub workers: u8,
}

pub struct WirePart;

/// Signatures that rest on elapsed time: a latency bound, the reply watchdog, pgcat's own 400 ms checkout timeout firing.
const TIMED_SIGS: &[&str] = &["added-waiting", "client-not-answered", "client-got-pooler-error"];

impl Part for WirePart {
    type Case = Case;
    fn prop(&self) -> &'static str {
        "C20"
    }
    fn name(&self) -> &'static str {
        "wire"
    }
    fn wire(&self) -> bool {
        true
    }
    fn rule(&self) -> String {
        "1..2 shards of one primary (+ optional replica), 0..3 mirrors attached to generated (shard, server index) pairs, each mirror in one of {up, accept-and-close, dead port, refusing authentication, hanging at start-up, hanging at the first query, slow, closing on the first message, answering with errors, not reading for 750 ms while ten 1 MiB statements pass through the mirrored server and then reading on}; 1..2 clients run 1..3 generated transactions (simple, multi-statement, blocks, extended batches, COPY IN/OUT) on a selected shard. Oracles: every request is answered with the client's own rows within 600 ms plus the statement's own scripted delay (one client pause of 520 ms lets the mirror pool's 400 ms connect timeout elapse) (mirror faults last the whole case, so any waiting on a mirror shows); a failure of one of these time-derived oracles (latency bound, reply watchdog, pgcat's own 400 ms checkout timeout answering a client with a pool error) counts only when the case, executed again from scratch twice, fails again both times - otherwise the case is inconclusive (label timed-signal-not-reproduced); the byte stream each mirror session received splits into whole units (runs of messages ending in Query/Sync/CopyDone/CopyFail, single CopyData) that form an in-order subsequence of the units one session of the mirrored server received, byte-exact (a truncated last unit is tolerated only on a session the mirror itself broke). Non-trivial = a mirror that is not plainly up, or a mirror configured on only one of two shards".into()
    }
    fn cases(&self, tier: Tier) -> u64 {
        tier.pick(800, 12_000)
    }
    fn strategy(&self, _tier: Tier) -> BoxedStrategy<Case> {
        let mode = prop_oneof![
            3 => Just(Mode::Up),
            1 => Just(Mode::Down),
            2 => Just(Mode::DeadPort),
            1 => Just(Mode::RefuseAuth),
            1 => Just(Mode::HangStartup),
            1 => Just(Mode::HangQuery),
            1 => Just(Mode::Slow),
            1 => Just(Mode::CloseOnMessage),
            1 => Just(Mode::ErrorReplies),
            1 => Just(Mode::StallThenResume),
        ];
        let mirror = (0u8..2, 0u8..2, mode).prop_map(|(shard, target, mode)| MirrorSpec { shard, target, mode });
        (1u8..=2, any::<bool>(), prop::collection::vec(mirror, 0..4), prop::collection::vec((0u8..2, prop::collection::vec(prog::txn_strategy(), 1..4)), 1..3), prop_oneof![Just(1u8), Just(2u8), Just(4u8)])
            .prop_map(|(shards, replicas, mirrors, clients, workers)| {
                let per = if replicas { 2 } else { 1 };
                let mirrors = mirrors.into_iter().map(|m| MirrorSpec { shard: m.shard % shards, target: m.target % per, mode: m.mode }).collect();
                let clients = clients.into_iter().map(|(s, t)| (s % shards, t)).collect();
                Case { shards, replicas, mirrors, clients, workers }
            })
            .boxed()
    }
    fn run(&self, c: &Case, ctx: &mut WorkerCtx) -> Outcome {
        let first = wire::run_async(run_case(c, ctx));
        if ctx.shrinking {
            return first;
        }
        crate::engine::confirm_timed(first, TIMED_SIGS, 2, || wire::run_async(run_case(c, ctx)))
    }
}

/// A port on 127.0.0.3 nobody ever listens on: below the ephemeral range (so the kernel never hands it to a mock backend) and
/// outside the pgcat range. (Taking "any free port" and releasing it was wrong: another worker's mirror mock could be given
/// that port a moment later, and this case's pgcat then mirrored its traffic into the other case's log.)
fn dead_port(worker: usize) -> u16 {
    19000 + (worker as u16 % 1000)
}

/// Split a frontend byte stream into units; the second value is a trailing incomplete unit.
fn units(msgs: &[Vec<u8>]) -> (Vec<Vec<u8>>, Vec<u8>) {
    let mut out = vec![];
    let mut cur: Vec<u8> = vec![];
    for m in msgs {
        let code = m[0];
        if code == b'd' && cur.is_empty() {
            out.push(m.clone());
            continue;
        }
        cur.extend_from_slice(m);
        if matches!(code, b'Q' | b'S' | b'c' | b'f') {
            out.push(std::mem::take(&mut cur));
        }
    }
    (out, cur)
}

fn session_msgs(log: &[Event], server: usize) -> HashMap<u64, Vec<Vec<u8>>> {
    let mut m: HashMap<u64, Vec<Vec<u8>>> = HashMap::new();
    for e in log {
        if e.server != server {
            continue;
        }
        if let EvKind::Rx { raw, code, .. } = &e.kind {
            if *code == b'X' {
                continue;
            }
            m.entry(e.conn).or_default().push(raw.clone());
        }
    }
    m
}

fn is_subsequence(small: &[Vec<u8>], big: &[Vec<u8>]) -> Option<usize> {
    // None = ok ; Some(i) = first unit of `small` that cannot be matched in order
    let mut j = 0;
    for (i, u) in small.iter().enumerate() {
        let mut found = false;
        while j < big.len() {
            if &big[j] == u {
                found = true;
                j += 1;
                break;
            }
            j += 1;
        }
        if !found {
            return Some(i);
        }
    }
    None
}

async fn run_case(c: &Case, ctx: &mut WorkerCtx) -> Outcome {
    let mut o = Outcome::pass();
    let per = if c.replicas { 2 } else { 1 };
    let mut specs = vec![];
    for s in 0..c.shards as usize {
        specs.push(BackendSpec::trust("127.0.0.1", &format!("s{}p", s)));
        if c.replicas {
            specs.push(BackendSpec::trust("127.0.0.2", &format!("s{}r", s)));
        }
    }
    let n_main = specs.len();
    for (i, _m) in c.mirrors.iter().enumerate() {
        specs.push(BackendSpec::trust("127.0.0.3", &format!("m{}", i)));
    }
    let mirrors = c.mirrors.clone();
    let worker = ctx.worker;
    let (shards_n, replicas) = (c.shards as usize, c.replicas);
    let env = match Env::start(ctx, &specs, |mocks| {
        let mut cfg = PgcatConfig::new();
        cfg.set_general("worker_threads", &c.workers.to_string());
        cfg.set_general("connect_timeout", "1500");
        let mut shards = vec![];
        for s in 0..shards_n {
            let mut servers = vec![ServerDef { host: mocks[s * per].ip.clone(), port: mocks[s * per].port, role: "primary".into() }];
            if replicas {
                servers.push(ServerDef { host: mocks[s * per + 1].ip.clone(), port: mocks[s * per + 1].port, role: "replica".into() });
            }
            let mut ms = vec![];
            for (i, m) in mirrors.iter().enumerate() {
                if m.shard as usize == s {
                    let port = if m.mode == Mode::DeadPort { dead_port(worker) } else { mocks[n_main + i].port };
                    ms.push(MirrorDef { host: "127.0.0.3".into(), port, target: m.target as usize });
                }
            }
            shards.push(ShardDef { id: s.to_string(), database: format!("shard{}", s), servers, mirrors: ms });
        }
        cfg.pools.push(PoolDef {
            name: "db".into(),
            settings: vec![("pool_mode".into(), "\"transaction\"".into()), ("connect_timeout".into(), "400".into())],
            users: vec![UserDef { key: "0".into(), username: "u".into(), password: Some("pw".into()), pool_size: 1, extra: vec![] }],
            shards,
            raw_tail: String::new(),
        });
        cfg
    })
    .await
    {
        Ok(e) => e,
        Err(e) => {
            o.inconclusive = Some(e);
            return o;
        }
    };
    for (i, m) in c.mirrors.iter().enumerate() {
        let mock = &env.mocks[n_main + i];
        match m.mode {
            Mode::Down => mock.set_fault(Fault::Down),
            Mode::RefuseAuth => mock.set_fault(Fault::RefuseAuth),
            Mode::HangStartup => mock.set_fault(Fault::HangStartup),
            Mode::HangQuery => mock.set_fault(Fault::HangQuery),
            Mode::Slow => mock.set_slow(250),
            Mode::CloseOnMessage => mock.set_fault(Fault::CloseOnMessage),
            Mode::ErrorReplies => mock.set_fault(Fault::ErrorReplies),
            Mode::StallThenResume => mock.set_fault(Fault::StallReads),
            _ => {}
        }
        o.label(&format!("mirror:{:?}", m.mode));
    }
    let faulty = c.mirrors.iter().any(|m| m.mode != Mode::Up);
    let partial = c.shards == 2 && (0..2u8).any(|s| c.mirrors.iter().any(|m| m.shard == s)) && (0..2u8).any(|s| !c.mirrors.iter().any(|m| m.shard == s));
    o.nontrivial = faulty || partial;

    // ---- client programs
    let t0 = Instant::now();
    let lag = std::sync::Arc::new(wire::LagMonitor::start(t0));
    // per-request timeline of the case (goes into the detail of a failure)
    let timeline: std::sync::Arc<std::sync::Mutex<Vec<String>>> = Default::default();
    let mut handles = vec![];
    for (i, (shard, txns)) in c.clients.iter().enumerate() {
        let id = i as u32 + 1;
        let cli = env.client(id, "u", "db", "pw", &[]).await;
        let txns = txns.clone();
        let shard = *shard;
        let linger = faulty;
        let lag = lag.clone();
        let timeline = timeline.clone();
        handles.push(tokio::spawn(async move {
            let mut problems: Vec<(String, String)> = vec![];
            let mut cli = match cli {
                Ok(c) => c,
                Err(e) => return vec![("login".to_string(), e)],
            };
            let (_m, e) = cli.simple(&format!("SET SHARD TO '{}'", shard), wire::T_REPLY).await;
            if !matches!(e, ReadEnd::Ready(_)) {
                return vec![("set-shard".to_string(), format!("{:?}", e))];
            }
            'outer: for (ti, txn) in txns.iter().enumerate() {
                // mirror reconnect/back-off logic only runs after the mirror pool's connect timeout
                // (400 ms here): linger once so that later requests overlap it
                if linger && ti == 1.min(txns.len() - 1) {
                    tokio::time::sleep(std::time::Duration::from_millis(520)).await;
                }
                for rq in &txn.reqs {
                    let x = prog::run_req(&mut cli, rq, t0).await;
                    let scripted: u64 = match rq {
                        prog::Req::Simple(v) => v.iter().map(|s| s.delay_ms as u64).max().unwrap_or(0),
                        prog::Req::Batch(v) => v.iter().filter_map(|m| if let prog::Ext::Parse(_, s, _) = m { Some(s.delay_ms as u64) } else { None }).max().unwrap_or(0),
                        _ => 0,
                    };
                    // (time during which the harness itself was not scheduling - busy mock backends, starved CPU - is not the pooler's)
                    let took_ms = (x.t_done_us - x.t_send_us) / 1000;
                    let harness_ms = lag.lag_ms_between(x.t_send_us, x.t_done_us);
                    timeline.lock().unwrap().push(format!("c{} {} sent@{}ms took {} ms (harness lag {} ms) {}", id, x.tags.iter().map(|t| t.short()).collect::<Vec<_>>().join(","), x.t_send_us / 1000, took_ms, harness_ms, if x.reply.iter().any(|m| m.code == b'E') { format!("errors {:?}", crate::cli::errors(&x.reply)) } else { String::new() }));
                    if !matches!(x.end, ReadEnd::Ready(_)) {
                        problems.push(("client-not-answered".into(), format!("request {:?} ended {:?}", x.tags, x.end)));
                        break 'outer;
                    }
                    if let Err(e) = prog::check_own_rows(&x) {
                        problems.push(("client-reply-differs".into(), e));
                        break 'outer;
                    }
                    if x.reply.iter().any(|m| m.code == b'E' && crate::proto::error_code(&m.body) == "58000") {
                        problems.push(("client-got-pooler-error".into(), format!("{:?}", crate::cli::errors(&x.reply))));
                        break 'outer;
                    }
                    if took_ms > 600 + scripted + harness_ms {
                        problems.push(("added-waiting".into(), format!("request {:?} took {} ms (scripted server delay {} ms, harness lag {} ms)", x.tags, took_ms, scripted, harness_ms)));
                        break 'outer;
                    }
                }
            }
            cli.close();
            problems
        }));
    }
    // ---- a stalled mirror: bulk traffic through its mirrored server's shard, then the mirror reads on
    let stalled: Vec<usize> = c.mirrors.iter().enumerate().filter(|(_, m)| m.mode == Mode::StallThenResume).map(|(i, _)| i).collect();
    let mut bulk_handle = None;
    if let Some(&mi) = stalled.first() {
        let shard = c.mirrors[mi].shard;
        let cli = env.client(40, "u", "db", "pw", &[]).await;
        let lag = lag.clone();
        let timeline = timeline.clone();
        bulk_handle = Some(tokio::spawn(async move {
            let mut problems: Vec<(String, String)> = vec![];
            let mut cli = match cli {
                Ok(c) => c,
                Err(e) => return vec![("login".to_string(), e)],
            };
            let (_m, e) = cli.simple(&format!("SET SHARD TO '{}'", shard), wire::T_REPLY).await;
            if !matches!(e, ReadEnd::Ready(_)) {
                return vec![("set-shard".to_string(), format!("{:?}", e))];
            }
            let pad = "x".repeat(1 << 20);
            for _ in 0..10 {
                let t = cli.tag();
                let started = Instant::now();
                let from_us = t0.elapsed().as_micros() as u64;
                let (m, e) = cli.simple(&format!("{} SELECT v FROM t /* {} */", t.render(), pad), wire::T_REPLY).await;
                if !matches!(e, ReadEnd::Ready(_)) || m.iter().any(|x| x.code == b'E') {
                    problems.push(("client-not-answered".into(), format!("1 MiB statement {} ended {:?} {:?}", t.short(), e, crate::cli::errors(&m))));
                    break;
                }
                let harness_ms = lag.lag_ms_between(from_us, t0.elapsed().as_micros() as u64);
                timeline.lock().unwrap().push(format!("bulk {} sent@{}ms took {} ms (harness lag {} ms)", t.short(), from_us / 1000, started.elapsed().as_millis(), harness_ms));
                if started.elapsed().as_millis() as u64 > 900 + harness_ms {
                    problems.push(("added-waiting".into(), format!("1 MiB statement {} took {} ms while a mirror was stalled (harness lag {} ms)", t.short(), started.elapsed().as_millis(), harness_ms)));
                    break;
                }
            }
            cli.close();
            problems
        }));
    }
    if !stalled.is_empty() {
        tokio::time::sleep(std::time::Duration::from_millis(750)).await;
        for mi in &stalled {
            env.mocks[n_main + *mi].set_fault(Fault::Up);
        }
    }
    let mut problems = vec![];
    if let Some(h) = bulk_handle {
        if let Ok(p) = h.await {
            problems.extend(p);
        }
    }
    for h in handles {
        if let Ok(p) = h.await {
            problems.extend(p);
        }
    }
    // let healthy mirrors drain their queue
    tokio::time::sleep(std::time::Duration::from_millis(if stalled.is_empty() { 60 } else { 600 })).await;
    lag.stop();
    let log = env.log();
    let stderr = env.pg.stderr_tail(500);
    env.finish().await;
    o.sub_evaluations = c.clients.iter().map(|(_, t)| t.iter().map(|x| x.reqs.len() as u64).sum::<u64>()).sum();

    if let Some((sig, d)) = problems.into_iter().next() {
        if sig == "login" || sig == "set-shard" {
            o.inconclusive = Some(format!("{}: {}", sig, d));
        } else {
            let modes: Vec<String> = c.mirrors.iter().map(|m| format!("{:?}", m.mode)).collect();
            let tl = timeline.lock().unwrap().join("\n");
            o.fail(&sig, format!("{} (mirror modes {:?})\ntimeline (mirrors resume 750 ms after the clients start):\n{}\npgcat stderr: {}", d, modes, tl, stderr));
        }
        return o;
    }
    // ---- mirror streams
    for (i, m) in c.mirrors.iter().enumerate() {
        if m.mode == Mode::DeadPort {
            continue;
        }
        let target_server = m.shard as usize * per + m.target as usize;
        let target_units: Vec<Vec<Vec<u8>>> = session_msgs(&log, target_server).into_values().map(|v| units(&v).0).collect();
        let closed_by_mirror = matches!(m.mode, Mode::CloseOnMessage | Mode::Down | Mode::RefuseAuth);
        for (conn, msgs) in session_msgs(&log, n_main + i) {
            let (us, tail) = units(&msgs);
            if !tail.is_empty() && !closed_by_mirror {
                o.fail("mirror-received-partial-request", format!("mirror m{} session {} ends with an incomplete unit of {} bytes", i, conn, tail.len()));
                return o;
            }
            if us.is_empty() {
                continue;
            }
            o.label("mirror_received_traffic");
            let ok = target_units.iter().any(|t| is_subsequence(&us, t).is_none());
            if !ok {
                // find out whether the offending unit belongs to another server
                let mut detail = String::new();
                let mut foreign = false;
                for u in &us {
                    if !target_units.iter().any(|t| t.contains(u)) {
                        let elsewhere = (0..n_main).filter(|s| *s != target_server).any(|s| session_msgs(&log, s).into_values().any(|v| units(&v).0.contains(u)));
                        foreign = elsewhere;
                        detail = format!("unit {:?}… ({} bytes) was never received by the mirrored server{}", String::from_utf8_lossy(&u[..u.len().min(60)]), u.len(), if elsewhere { " but by a different server" } else { "" });
                        break;
                    }
                }
                if detail.is_empty() {
                    detail = "units are copies of the mirrored server's requests but not in its order".into();
                }
                if std::env::var("PGVERIF_DUMP_ON_FAIL").is_ok() {
                    wire::dump_log(&log);
                }
                o.fail(
                    if foreign { "mirror-received-other-servers-traffic" } else { "mirror-stream-not-a-copy" },
                    format!("mirror m{} (shard {} target index {}, mode {:?}) session {}: {}", i, m.shard, m.target, m.mode, conn, detail),
                );
                return o;
            }
        }
    }
    // a server without mirrors must not feed any mirror: covered above, because every mirror's stream
    // has to come from its own target
    o
}
