//! C05 wire half: the role label of the mock backend that received each tagged statement.

use super::c05::{step_strategy, Class, Model, Step};
use crate::cli::ReadEnd;
use crate::engine::{Outcome, Part, Tier, WorkerCtx};
use crate::mock::Fault;
use crate::pgc::{self, PgcatConfig, ServerDef};
use crate::proto;
use crate::wire::{self, BackendSpec, Env};
use proptest::prelude::*;
use serde::{Deserialize, Serialize};
use sqlparser::dialect::PostgreSqlDialect;
use sqlparser::parser::Parser;

#[derive(Clone, Debug, Serialize, Deserialize)]
pub struct Case {
    pub default_role: u8,
    pub primary_reads: bool,
    pub replicas_down: bool,
    pub lb_loc: bool,
    /// 0 = no plugins, 1 = query_logger, 2 = table_access on a table no statement touches, 3 = both
    #[serde(default)]
    pub plugins: u8,
    pub steps: Vec<Step>,
    /// db_activity_based_routing on (40 ms initialising window, 60 ms table mutation cache): plain reads may be sent to the primary
    /// for a while, everything else must be routed as without it
    #[serde(default)]
    pub activity: bool,
}

pub struct WirePart;

impl Part for WirePart {
    type Case = Case;
    fn prop(&self) -> &'static str {
        "C05"
    }
    fn name(&self) -> &'static str {
        "wire"
    }
    fn wire(&self) -> bool {
        true
    }
    fn rule(&self) -> String {
        "one primary + two replicas (mock backends on 127.0.0.1/2/3), read/write splitting on, default_role × primary_reads_enabled × load balancing mode × replicas up/down × statement plugins off / query_logger / table_access (on a table nothing touches) × db_activity_based_routing off/on (on: plain reads may also run on the primary, nothing else changes); sessions of 1..8 steps (class-labelled messages as simple Query or Parse/Bind/Execute/Sync, SET SERVER ROLE, SET PRIMARY READS); oracle: the role of the backend whose log shows the tagged statement satisfies the label model; with 'replica' pinned and both replicas down the client gets an error and the primary receives nothing. Non-trivial = a non-read class other than plain DML, or a message after an override".into()
    }
    fn cases(&self, tier: Tier) -> u64 {
        tier.pick(1_200, 16_000)
    }
    fn strategy(&self, _tier: Tier) -> BoxedStrategy<Case> {
        (0u8..3, any::<bool>(), prop::bool::weighted(0.2), any::<bool>(), prop_oneof![2 => Just(0u8), 1 => 1u8..4], prop::collection::vec(step_strategy(), 1..9), prop::bool::weighted(0.25))
            .prop_map(|(default_role, primary_reads, replicas_down, lb_loc, plugins, steps, activity)| Case { default_role, primary_reads, replicas_down, lb_loc, plugins, steps, activity })
            .boxed()
    }
    fn run(&self, c: &Case, ctx: &mut WorkerCtx) -> Outcome {
        wire::run_async(run_case(c, ctx))
    }
}

fn config(mocks: &[crate::mock::MockServer], c: &Case) -> PgcatConfig {
    let mut cfg = PgcatConfig::new();
    cfg.set_general("connect_timeout", "1000");
    cfg.set_general("ban_time", "60");
    let servers: Vec<ServerDef> = mocks
        .iter()
        .enumerate()
        .map(|(i, m)| ServerDef { host: m.ip.clone(), port: m.port, role: if i == 0 { "primary".into() } else { "replica".into() } })
        .collect();
    let mut pool = pgc::simple_pool("db", "u", "pw", 3, servers);
    pool.set("query_parser_enabled", "true");
    pool.set("query_parser_read_write_splitting", "true");
    pool.set("primary_reads_enabled", if c.primary_reads { "true" } else { "false" });
    pool.set("default_role", ["\"any\"", "\"replica\"", "\"primary\""][(c.default_role % 3) as usize]);
    if c.lb_loc {
        pool.set("load_balancing_mode", "\"loc\"");
    }
    if c.activity {
        pool.set("db_activity_based_routing", "true");
        pool.set("db_activity_init_delay", "40");
        pool.set("table_mutation_cache_ms_ttl", "60");
    }
    if c.plugins > 0 {
        // plugins that never object to the generated statements: routing must be what it is without them
        let mut t = String::from("[pools.db.plugins]\n");
        if c.plugins & 1 != 0 {
            t.push_str("\n[pools.db.plugins.query_logger]\nenabled = true\n");
        }
        if c.plugins & 2 != 0 {
            t.push_str("\n[pools.db.plugins.table_access]\nenabled = true\ntables = [\"c05_never_used\"]\n");
        }
        pool.raw_tail = t;
    }
    cfg.pools.push(pool);
    cfg
}

async fn run_case(c: &Case, ctx: &mut WorkerCtx) -> Outcome {
    let mut o = Outcome::pass();
    let specs = vec![BackendSpec::trust("127.0.0.1", "p0"), BackendSpec::trust("127.0.0.2", "r1"), BackendSpec::trust("127.0.0.3", "r2")];
    let env = match Env::start(ctx, &specs, |m| config(m, c)).await {
        Ok(e) => e,
        Err(e) => {
            o.inconclusive = Some(e);
            return o;
        }
    };
    let mut cli = match env.client(1, "u", "db", "pw", &[]).await {
        Ok(c) => c,
        Err(e) => {
            o.inconclusive = Some(format!("login: {}", e));
            env.finish().await;
            return o;
        }
    };
    if c.replicas_down {
        env.mocks[1].set_fault(Fault::Down);
        env.mocks[2].set_fault(Fault::Down);
        env.mocks[1].kill_sessions();
        env.mocks[2].kill_sessions();
        o.label("replicas_down");
    }
    if c.plugins > 0 {
        o.label("plugins_enabled");
    }
    if c.activity {
        o.label("activity_based_routing");
    }
    let mut model = Model::new(c.primary_reads);
    let mut overridden = false;
    for st in &c.steps {
        match st {
            Step::SetRole(v) => {
                let (m, e) = cli.simple(&format!("SET SERVER ROLE TO '{}'", v), wire::T_REPLY).await;
                if !matches!(e, ReadEnd::Ready(_)) || m.iter().any(|x| x.code == b'E') {
                    o.fail("set-server-role-not-handled", format!("SET SERVER ROLE TO '{}' -> {:?} {:?}", v, e, crate::cli::errors(&m)));
                    break;
                }
                model.set_role(v);
                overridden = true;
            }
            Step::SetPrimaryReads(v) => {
                let (m, e) = cli.simple(&format!("SET PRIMARY READS TO {}", v), wire::T_REPLY).await;
                if !matches!(e, ReadEnd::Ready(_)) || m.iter().any(|x| x.code == b'E') {
                    o.fail("set-primary-reads-not-handled", format!("SET PRIMARY READS TO {} -> {:?}", v, e));
                    break;
                }
                model.set_primary_reads(v);
            }
            Step::Msg { stmts, parse } => {
                o.sub_evaluations += 1;
                // COPY FROM STDIN needs a data phase; the wire half uses COPY TO STDOUT instead
                let stmts: Vec<_> = stmts
                    .iter()
                    .map(|s| {
                        let mut s = s.clone();
                        if s.sql.to_uppercase().contains("FROM STDIN") {
                            s.sql = "COPY t1 TO STDOUT".into();
                        }
                        s
                    })
                    .collect();
                let mut tags = vec![];
                let mut parts = vec![];
                for s in &stmts {
                    let t = cli.tag();
                    tags.push(t);
                    parts.push(format!("{} {}", t.render(), s.sql));
                }
                let sql = parts.join("; ");
                let accepted = Parser::parse_sql(&PostgreSqlDialect {}, &sql).map(|a| !a.is_empty()).unwrap_or(false);
                let classes: Vec<Class> = stmts.iter().map(|s| s.class).collect();
                let bytes = if *parse {
                    let mut b = proto::parse("", &sql, &[]);
                    b.extend_from_slice(&proto::bind("", "", &[], &[], &[]));
                    b.extend_from_slice(&proto::execute("", 0));
                    b.extend_from_slice(&proto::sync());
                    b
                } else {
                    proto::query(&sql)
                };
                cli.send(&bytes).await;
                let (m, e) = cli.read_until_ready(wire::T_REPLY).await;
                let status = match e {
                    ReadEnd::Ready(s) => s,
                    ReadEnd::Closed if c.replicas_down => {
                        // a pooled connection to a replica that just died costs this client its session (C07's subject)
                        o.label("client_dropped_on_dead_replica");
                        break;
                    }
                    other => {
                        o.inconclusive = Some(format!("message {:?} ended {:?}", sql, other));
                        break;
                    }
                };
                for cl in &classes {
                    o.label(cl.name());
                }
                let pool_error = m.iter().any(|x| x.code == b'E' && proto::error_code(&x.body) == "58000");
                let log = env.log();
                let server = log.iter().find_map(|ev| match &ev.kind {
                    crate::mock::EvKind::Rx { tags: tg, .. } if tg.contains(&tags[0]) => Some(ev.server),
                    _ => None,
                });
                if accepted {
                    if classes.iter().any(|c| !matches!(c, Class::Read | Class::Dml)) || overridden {
                        o.nontrivial = true;
                    }
                    let want = model.expect(&classes);
                    match server {
                        Some(sv) => {
                            let got = if sv == 0 { "primary" } else { "replica" };
                            // (activity-based routing may pin plain reads to the primary for a while; it never sends anything
                            // else to a replica and does not override an explicit role)
                            let reads_only = classes.iter().all(|c| *c == Class::Read);
                            let ok = match want {
                                "primary" => got == "primary",
                                "replica" => got == "replica" || (c.activity && reads_only && model.pinned.is_none()),
                                _ => true,
                            };
                            if !ok {
                                let culprit = classes.iter().find(|c| **c != Class::Read).map(|c| c.name()).unwrap_or("read");
                                let sig = if model.pinned.is_some() { format!("pinned-role-not-honoured:{}", want) } else { format!("wrong-role:{}->{}:{}", want, got, culprit) };
                                o.fail(&sig, format!("message {:?} (classes {:?}, parse={}) executed on a {} but the model requires {} (model {:?})", sql, classes, parse, got, want, model));
                                break;
                            }
                        }
                        None => {
                            // nothing reached a server: only acceptable as a pooler error when no server of the role is up
                            let legit = pool_error && c.replicas_down && want == "replica";
                            if legit {
                                o.label("refused_no_replica");
                            } else if pool_error && c.replicas_down {
                                // failover behaviour with every replica down belongs to C07
                                o.label("pool_error_with_replicas_down");
                            } else {
                                o.fail("statement-not-executed", format!("message {:?} reached no server; reply errors {:?}", sql, crate::cli::errors(&m)));
                                break;
                            }
                        }
                    }
                } else {
                    o.label("parser_rejected");
                }
                // leave any transaction the message opened
                if status != b'I' {
                    let (_m, e) = cli.simple("ROLLBACK", wire::T_REPLY).await;
                    if !matches!(e, ReadEnd::Ready(_)) {
                        o.inconclusive = Some("ROLLBACK after message not answered".into());
                        break;
                    }
                }
            }
        }
    }
    env.finish().await;
    o
}
