//! C04 — server connections are bounded by pool_size, never leaked; waiters are served.

use crate::cli::ReadEnd;
use crate::engine::{Outcome, Part, PartReport, Tier, WorkerCtx};
use crate::mock::{EvKind, Event};
use crate::pgc::{self, PgcatConfig, ServerDef};
use crate::prog::{self, Req, Sk, St, Txn};
use crate::proto;
use crate::wire::{self, BackendSpec, Env};
use proptest::prelude::*;
use serde::{Deserialize, Serialize};
use std::collections::HashSet;
use std::time::Duration;

pub fn check(tier: Tier, seed: u64, replay: (Option<&str>, Option<&str>)) -> Vec<PartReport> {
    crate::run_parts!(tier, seed, replay, [WirePart, ReloadPart])
}

#[derive(Clone, Debug, Serialize, Deserialize, PartialEq)]
pub enum Act {
    Txn(Txn),
    /// close the socket between transactions
    Drop,
    /// BEGIN (+ one statement), then close the socket while holding the server
    DropInTxn,
    /// send a statement whose reply the server delays, close before it arrives
    DropMidReply(u16),
    /// close after sending only part of a message
    DropPartial(u16),
    /// Terminate properly
    Terminate,
    /// autocommit statement that the server answers with an error
    ErrStmt,
    /// statement during which the server closes the connection after k reply bytes
    ServerCloseMid(u16),
    /// extended batch pgcat answers without the server (lone Sync)
    LoneSync,
    /// COPY FROM STDIN that the server rejects at CopyDone, followed by a failing statement
    CopyFailThenErr,
    Sleep(u8),
    /// (statement cache on) a named statement is prepared and used, then one batch closes it and binds it again: an error of
    /// the client's own making, after which it may be disconnected - or stay, but then without a server
    CloseThenBind,
    /// (plugins on) a statement the pooler answers by itself outside a transaction: true = denied by table_access, false =
    /// intercepted; simple or extended protocol
    PluginAnswered(bool, bool),
}

#[derive(Clone, Debug, Serialize, Deserialize)]
pub struct Case {
    pub pool_size: u8,
    pub session_mode: bool,
    pub workers: u8,
    pub cache: bool,
    /// Some(ms): checkout-timeout class — connect_timeout is this small and holders hold longer
    pub connect_timeout: Option<u16>,
    /// where the effective connect_timeout is written: 0 = [general] only; 1 = pool level, 2 = user level, 3 = user level with a
    /// decoy at pool level - in 1..3 [general] (and the pool in 3) carry a decoy value that must not take effect
    #[serde(default)]
    pub ct_layout: u8,
    pub failure_limit: Option<u8>,
    pub clients: Vec<Vec<Act>>,
    /// kill every established backend session at these times (ms after start)
    pub server_kills: Vec<u16>,
    /// query parser with the table_access plugin (table `secrets`) and one intercept rule
    #[serde(default)]
    pub plugins: bool,
}

pub struct WirePart;

fn act_strategy() -> BoxedStrategy<Act> {
    prop_oneof![
        8 => prog::txn_strategy().prop_map(Act::Txn),
        1 => Just(Act::Drop),
        2 => Just(Act::DropInTxn),
        1 => (20u16..80).prop_map(Act::DropMidReply),
        1 => (1u16..30).prop_map(Act::DropPartial),
        1 => Just(Act::Terminate),
        2 => Just(Act::ErrStmt),
        1 => (0u16..60).prop_map(Act::ServerCloseMid),
        1 => Just(Act::LoneSync),
        1 => Just(Act::CopyFailThenErr),
        1 => (1u8..30).prop_map(Act::Sleep),
        1 => Just(Act::CloseThenBind),
        1 => (any::<bool>(), any::<bool>()).prop_map(|(d, e)| Act::PluginAnswered(d, e)),
    ]
    .boxed()
}

pub fn case_strategy() -> BoxedStrategy<Case> {
    (
        1u8..=4,
        prop::bool::weighted(0.25),
        prop_oneof![Just(1u8), Just(2u8), Just(4u8)],
        prop::bool::weighted(0.3),
        prop::option::weighted(0.25, 60u16..200),
        prop::option::weighted(0.3, 1u8..4),
        prop::collection::vec(prop::collection::vec(act_strategy(), 1..5), 1..14),
        prop::collection::vec(5u16..120, 0..2),
        any::<u16>(),
        prop_oneof![3 => Just(0u8), 1 => Just(1u8), 1 => Just(2u8), 2 => Just(3u8)],
        prop::bool::weighted(0.3),
    )
        .prop_map(|(pool_size, session_mode, workers, cache, connect_timeout, failure_limit, mut clients, server_kills, k, ct_layout, plugins)| {
            // client count between pool_size and 3*pool_size + 1
            let lo = pool_size as usize;
            let hi = 3 * pool_size as usize + 1;
            let want = lo + crate::engine::pick(k, hi - lo + 1);
            while clients.len() < want {
                let c = clients[clients.len() % clients.len().max(1)].clone();
                clients.push(c);
            }
            clients.truncate(want);
            Case {
                pool_size,
                session_mode,
                workers,
                cache: cache && !session_mode,
                connect_timeout,
                ct_layout,
                failure_limit: if connect_timeout.is_some() { failure_limit } else { None },
                clients,
                server_kills,
                plugins,
            }
        })
        .boxed()
}

impl Part for WirePart {
    type Case = Case;
    fn prop(&self) -> &'static str {
        "C04"
    }
    fn name(&self) -> &'static str {
        "wire"
    }
    fn wire(&self) -> bool {
        true
    }
    fn rule(&self) -> String {
        "pool_size 1..4, clients pool_size..3*pool_size+1, both pool modes; per-client histories of generated transactions mixed with aborts (socket drop between transactions, inside a transaction, before a delayed reply, after part of a message), Terminate, statement errors, server closing mid-reply, lone Sync, failed COPY followed by a failing statement, (statement cache on) a batch that closes a named statement and binds it again, (query parser with table_access and intercept plugins, 30% of the cases) statements the pooler answers by itself outside a transaction, plus 0..2 kills of all backend sessions; a separate class has a 60..200 ms connect_timeout (optionally checkout_failure_limit) so waiters time out; the effective connect_timeout is written at [general], pool or user level, with a decoy value (450 ms resp. 5 s) at the less specific levels that must not take effect. Oracle: live authenticated sessions per mock listener never exceed pool_size for > 300 ms; every request of a live client is answered (or refused with the pool error and the client stays usable); afterwards pool_size probe clients hold pool_size simultaneous transactions and SHOW POOLS/SERVERS report nothing active. Non-trivial = at least one abort/fault while a connection was held AND more clients than pool_size".into()
    }
    fn cases(&self, tier: Tier) -> u64 {
        tier.pick(1_200, 18_000)
    }
    fn strategy(&self, _tier: Tier) -> BoxedStrategy<Case> {
        case_strategy()
    }
    fn run(&self, c: &Case, ctx: &mut WorkerCtx) -> Outcome {
        wire::run_async(run_case(c, ctx))
    }
}

fn config(mocks: &[crate::mock::MockServer], c: &Case) -> PgcatConfig {
    let mut cfg = PgcatConfig::new();
    cfg.set_general("worker_threads", &c.workers.to_string());
    // effective value E and a decoy D that a less specific level carries: user level beats pool level beats [general]
    let e = c.connect_timeout.map(|x| x as u32).unwrap_or(5000);
    let d = decoy_ms(c);
    let servers = vec![ServerDef { host: mocks[0].ip.clone(), port: mocks[0].port, role: "primary".into() }];
    let mut pool = pgc::simple_pool("db", "u", "pw", c.pool_size as u32, servers);
    match c.ct_layout {
        1 => {
            cfg.set_general("connect_timeout", &d.to_string());
            pool.set("connect_timeout", &e.to_string());
        }
        2 => {
            cfg.set_general("connect_timeout", &d.to_string());
            pool.users[0].extra.push(("connect_timeout".into(), e.to_string()));
        }
        3 => {
            cfg.set_general("connect_timeout", &d.to_string());
            pool.set("connect_timeout", &d.to_string());
            pool.users[0].extra.push(("connect_timeout".into(), e.to_string()));
        }
        _ => cfg.set_general("connect_timeout", &e.to_string()),
    }
    if c.session_mode {
        pool.set("pool_mode", "\"session\"");
    }
    if c.cache {
        pool.set("prepared_statements_cache_size", "4");
    }
    if let Some(l) = c.failure_limit {
        pool.set("checkout_failure_limit", &l.to_string());
    }
    if c.plugins {
        pool.set("query_parser_enabled", "true");
        pool.raw_tail = "[pools.db.plugins]\n\n[pools.db.plugins.table_access]\nenabled = true\ntables = [\"secrets\"]\n\n[pools.db.plugins.intercept]\nenabled = true\n\n[pools.db.plugins.intercept.queries.0]\nquery = \"select current_database() as a, current_schemas(false) as b\"\nschema = [[\"a\", \"text\"], [\"b\", \"text\"]]\nresult = [[\"${DATABASE}\", \"{public}\"]]\n".to_string();
    }
    cfg.pools.push(pool);
    cfg
}

/// The value written at the less specific configuration level(s): long when the effective timeout is short and vice versa.
fn decoy_ms(c: &Case) -> u32 {
    if c.connect_timeout.is_some() {
        5000
    } else {
        450
    }
}

#[derive(Debug)]
struct ClientResult {
    id: u32,
    /// a request of a client that was alive and well was never answered
    stall: Option<String>,
    pool_errors: u32,
    kicked: bool,
    faulted: bool,
}

fn is_pool_error(x: &prog::Exchange) -> bool {
    x.reply.iter().any(|m| m.code == b'E' && proto::error_code(&m.body) == "58000")
}

async fn run_case(c: &Case, ctx: &mut WorkerCtx) -> Outcome {
    let mut o = Outcome::pass();
    let specs = vec![BackendSpec::trust("127.0.0.1", "p0")];
    let env = match Env::start(ctx, &specs, |m| config(m, c)).await {
        Ok(e) => e,
        Err(e) => {
            o.inconclusive = Some(e);
            return o;
        }
    };
    let t0 = std::time::Instant::now();
    let timeout_class = c.connect_timeout.is_some();
    // with a short decoy at a less specific level some holders keep their connection longer than the decoy, so that a waiter
    // would be turned away if the decoy were in effect
    let decoy_hold = c.connect_timeout.is_none() && c.ct_layout > 0;
    let hold_extra: u16 = c.connect_timeout.map(|t| t + 120).unwrap_or(if decoy_hold { 600 } else { 0 });
    let mut handles = vec![];
    let done = std::sync::Arc::new(std::sync::atomic::AtomicUsize::new(0));
    let release = std::sync::Arc::new(tokio::sync::Notify::new());
    for (i, acts) in c.clients.iter().enumerate() {
        let id = i as u32 + 1;
        let acts = acts.clone();
        let cli = env.client(id, "u", "db", "pw", &[]).await;
        let shared = env.shared.clone();
        let any_kill = !c.server_kills.is_empty();
        let done = done.clone();
        let release = release.clone();
        let session_mode = c.session_mode;
        let has_limit = c.failure_limit.is_some();
        handles.push(tokio::spawn(async move {
            let mut r = ClientResult { id, stall: None, pool_errors: 0, kicked: false, faulted: false };
            let mut cli = match cli {
                Ok(c) => c,
                Err(e) => {
                    // a login that coincides with a backend kill may be refused ("Pool down")
                    if any_kill {
                        r.faulted = true;
                    } else {
                        r.stall = Some(format!("login failed: {}", e));
                    }
                    return r;
                }
            };
            'acts: for a in &acts {
                // every act is a list of requests; the outcome of each is classified uniformly
                let mut reqs: Vec<Req> = vec![];
                let mut own_server_fault = false;
                match a {
                    Act::Txn(txn) => {
                        if txn.pre_delay_ms > 0 {
                            tokio::time::sleep(Duration::from_millis(txn.pre_delay_ms as u64)).await;
                        }
                        for (k, rq) in txn.reqs.iter().enumerate() {
                            // in the timeout class the first statement of odd clients holds the server long enough
                            match (rq, k == 0 && (timeout_class || decoy_hold) && id % 2 == 1) {
                                (Req::Simple(v), true) => {
                                    let mut v = v.clone();
                                    v[0].delay_ms = v[0].delay_ms.max(hold_extra);
                                    reqs.push(Req::Simple(v));
                                }
                                (o, _) => reqs.push(o.clone()),
                            }
                        }
                    }
                    Act::Drop => {
                        cli.close();
                        break;
                    }
                    Act::DropInTxn => {
                        let _ = prog::run_req(&mut cli, &Req::Simple(vec![St::new(Sk::Begin)]), t0).await;
                        let _ = prog::run_req(&mut cli, &Req::Simple(vec![St::new(Sk::Insert)]), t0).await;
                        cli.close();
                        break;
                    }
                    Act::DropMidReply(ms) => {
                        let t = cli.tag();
                        cli.send(&proto::query(&format!("{} SELECT v FROM t /*@ rows=2 delay={} */", t.render(), ms))).await;
                        tokio::time::sleep(Duration::from_millis(3)).await;
                        cli.close();
                        break;
                    }
                    Act::DropPartial(k) => {
                        let t = cli.tag();
                        let full = proto::query(&format!("{} SELECT v FROM t WHERE partial = 1", t.render()));
                        let k = (*k as usize).min(full.len() - 1);
                        cli.send(&full[..k]).await;
                        cli.close();
                        break;
                    }
                    Act::Terminate => {
                        cli.send(&proto::terminate()).await;
                        cli.close();
                        break;
                    }
                    Act::ErrStmt => {
                        let mut s = St::new(Sk::Select);
                        s.err_at = Some(0);
                        reqs.push(Req::Simple(vec![s]));
                    }
                    Act::ServerCloseMid(k) => {
                        let mut s = St::new(Sk::Select).rows(3);
                        s.extra = format!("close={}", k);
                        reqs.push(Req::Simple(vec![s]));
                        own_server_fault = true;
                    }
                    Act::LoneSync => reqs.push(Req::Batch(vec![])),
                    Act::CopyFailThenErr => {
                        reqs.push(Req::CopyIn { chunks: 1, chunk_len: 10, fail: true });
                        let mut s = St::new(Sk::Select);
                        s.err_at = Some(0);
                        reqs.push(Req::Simple(vec![s]));
                    }
                    Act::Sleep(ms) => tokio::time::sleep(Duration::from_millis(*ms as u64)).await,
                    Act::PluginAnswered(denied, ext) => {
                        // answered by the pooler (permission error / configured rows); without the plugins it is an ordinary
                        // statement. Either way the client is idle afterwards and must not keep a server.
                        let t = cli.tag();
                        let sql = if *denied { format!("{} SELECT * FROM secrets", t.render()) } else { "select current_database() as a, current_schemas(false) as b".to_string() };
                        let bytes = if *ext {
                            let mut b = proto::parse("", &sql, &[]);
                            b.extend_from_slice(&proto::bind("", "", &[], &[], &[]));
                            b.extend_from_slice(&proto::execute("", 0));
                            b.extend_from_slice(&proto::sync());
                            b
                        } else {
                            proto::query(&sql)
                        };
                        cli.send(&bytes).await;
                        let (m, e) = cli.read_until_ready(wire::T_REPLY).await;
                        let errs = crate::cli::errors(&m);
                        match e {
                            ReadEnd::Ready(_) => {
                                // (without the plugins it is an ordinary statement and can meet a pool error like any other)
                                // (the permission error of table_access carries the same SQLSTATE as the pool errors)
                                if m.iter().any(|x| x.code == b'E' && proto::error_code(&x.body) == "58000" && !proto::error_message(&x.body).contains("permission for table")) {
                                    r.pool_errors += 1;
                                    if !(timeout_class || any_kill) {
                                        r.stall = Some(format!("pool error {:?} although connect_timeout is 5 s and no backend was killed", errs));
                                        break 'acts;
                                    }
                                }
                            }
                            ReadEnd::Closed if has_limit && errs.iter().any(|x| x.contains("checkout failure limit")) => {
                                r.kicked = true;
                                break 'acts;
                            }
                            ReadEnd::Closed if any_kill => {
                                r.faulted = true;
                                break 'acts;
                            }
                            other => {
                                r.stall = Some(format!("a statement the pooler answers by itself ({}) ended {:?}", if *denied { "table_access" } else { "intercept" }, other));
                                break 'acts;
                            }
                        }
                    }
                    Act::CloseThenBind => {
                        let name = format!("stmt_c{}", id);
                        let t = cli.tag();
                        let mut b = proto::parse(&name, &format!("{} SELECT v FROM t", t.render()), &[]);
                        b.extend_from_slice(&proto::bind("", &name, &[], &[], &[]));
                        b.extend_from_slice(&proto::execute("", 0));
                        b.extend_from_slice(&proto::sync());
                        cli.send(&b).await;
                        let (m1, e1) = cli.read_until_ready(wire::T_REPLY).await;
                        if !matches!(e1, ReadEnd::Ready(_)) || m1.iter().any(|x| x.code == b'E') {
                            // (pool error in the timeout class, backend kill: nothing to build on)
                            if !cli.is_open() {
                                r.faulted = true;
                                break 'acts;
                            }
                            continue 'acts;
                        }
                        let mut b = proto::close(b'S', &name);
                        b.extend_from_slice(&proto::bind("", &name, &[], &[], &[]));
                        b.extend_from_slice(&proto::execute("", 0));
                        b.extend_from_slice(&proto::sync());
                        cli.send(&b).await;
                        let (_m2, e2) = cli.read_until_ready(wire::T_REPLY).await;
                        match e2 {
                            // told it is idle again: it goes on like any other client
                            ReadEnd::Ready(_) => {}
                            // disconnected for its own error
                            ReadEnd::Closed => break 'acts,
                            other => {
                                r.stall = Some(format!("Close + Bind of the same statement in one batch ended {:?} (no answer)", other));
                                break 'acts;
                            }
                        }
                    }
                }
                for rq in &reqs {
                    let x = prog::run_req(&mut cli, rq, t0).await;
                    let errs = crate::cli::errors(&x.reply);
                    match &x.end {
                        ReadEnd::Ready(_) => {
                            if is_pool_error(&x) {
                                r.pool_errors += 1;
                                if !(timeout_class || any_kill) {
                                    r.stall = Some(format!("pool error {:?} although connect_timeout is 5 s and no backend was killed", errs));
                                    break 'acts;
                                }
                                // the transaction is over as far as this client can tell
                                continue 'acts;
                            }
                        }
                        ReadEnd::Closed => {
                            let kicked = errs.iter().any(|m| m.contains("checkout failure limit"));
                            let server_fault = errs.iter().any(|m| m.contains("error receiving data from server"));
                            if kicked && has_limit {
                                r.kicked = true;
                            } else if own_server_fault || (any_kill && (server_fault || errs.is_empty())) {
                                r.faulted = true;
                            } else {
                                r.stall = Some(format!("connection closed on a well-behaved client (tags {:?}, errors {:?})", x.tags, errs));
                            }
                            break 'acts;
                        }
                        other => {
                            r.stall = Some(format!("request {:?} ended {:?} (no answer)", x.tags, other));
                            break 'acts;
                        }
                    }
                }
            }
            // idle clients stay connected until the main task has looked at the pool: an idle client must
            // not pin a server in transaction mode
            done.fetch_add(1, std::sync::atomic::Ordering::SeqCst);
            if cli.is_open() {
                if !session_mode {
                    let _ = tokio::time::timeout(Duration::from_secs(20), release.notified()).await;
                }
                cli.send(&proto::terminate()).await;
                cli.close();
            }
            shared.ctl(&format!("close c{}", id));
            r
        }));
    }
    // server-side kills
    let mut kills: Vec<u16> = c.server_kills.clone();
    kills.sort();
    let mut elapsed = 0u16;
    for k in &kills {
        tokio::time::sleep(Duration::from_millis((*k - elapsed.min(*k)) as u64)).await;
        elapsed = *k;
        env.shared.ctl("kill backend sessions");
        env.mocks[0].kill_sessions();
    }
    // wait until every client has finished its acts (idle or gone)
    let wait_deadline = std::time::Instant::now() + Duration::from_secs(40);
    while done.load(std::sync::atomic::Ordering::SeqCst) < c.clients.len() && std::time::Instant::now() < wait_deadline {
        tokio::time::sleep(Duration::from_millis(5)).await;
    }
    env.shared.ctl("actors idle");
    // ---- transaction mode: with idle clients still connected the whole pool must be free
    let mut mid_problem: Option<(String, String)> = None;
    if !c.session_mode && done.load(std::sync::atomic::Ordering::SeqCst) == c.clients.len() {
        tokio::time::sleep(Duration::from_millis(20)).await;
        // (the admin view first: the capacity probe uses every connection and would refresh a stale "active" mark)
        if let Some(p) = admin_idle_check(&env).await {
            mid_problem = Some(("server-marked-active-while-clients-idle".into(), p));
        } else if let Some(p) = capacity_probe(&env, c, t0, 200).await {
            mid_problem = Some(("capacity-lost-while-clients-idle".into(), p));
        } else if let Some(p) = admin_idle_check(&env).await {
            mid_problem = Some(("server-marked-active-while-clients-idle".into(), p));
        }
    }
    release.notify_waiters();
    let mut results = vec![];
    for h in handles {
        release.notify_waiters();
        if let Ok(r) = h.await {
            results.push(r);
        }
    }
    env.shared.ctl("actors done");

    // ---- (d) after everyone left: full capacity is available again, nothing is marked in use
    tokio::time::sleep(Duration::from_millis(30)).await;
    let admin_before: Option<String> = if !c.session_mode { admin_idle_check(&env).await } else { None };
    let capacity_problem: Option<String> = capacity_probe(&env, c, t0, 100).await;
    let admin_problem: Option<String> = if admin_before.is_some() {
        admin_before
    } else if capacity_problem.is_none() && !c.session_mode {
        admin_idle_check(&env).await
    } else {
        None
    };
    let log = env.log();
    let stderr = env.pg.stderr_tail(1000);
    env.finish().await;

    // ---- labels / non-triviality
    let faulty = c.clients.iter().flatten().any(|a| matches!(a, Act::DropInTxn | Act::DropMidReply(_) | Act::ServerCloseMid(_) | Act::DropPartial(_) | Act::CopyFailThenErr)) || !c.server_kills.is_empty();
    let oversub = c.clients.len() > c.pool_size as usize;
    o.nontrivial = faulty && oversub;
    o.label(if c.session_mode { "session" } else { "transaction" });
    if timeout_class {
        o.label("checkout_timeout_class");
    }
    if !c.server_kills.is_empty() {
        o.label("backend_kill");
    }
    if results.iter().any(|r| r.pool_errors > 0) {
        o.label("pool_error_seen");
    }
    if results.iter().any(|r| r.kicked) {
        o.label("kicked_by_failure_limit");
    }
    o.sub_evaluations = c.clients.iter().map(|v| v.len() as u64).sum();

    // ---- (a) bound on live sessions
    if let Some(d) = over_capacity(&log, c.pool_size as usize) {
        o.fail("more-sessions-than-pool-size", d);
        return o;
    }
    // ---- (b) waiters served / clients usable
    for r in &results {
        if let Some(st) = &r.stall {
            // pgcat marks a pool as down when its start-up validation does not finish within connect_timeout; with the short
            // generated connect_timeout that happens when this machine (harness and mock backends included) is starved of CPU
            if st.contains("Pool down") && stderr.contains("Could not validate connection pool") {
                o.inconclusive = Some(format!("pool validation at start-up timed out (CPU starvation): {}", st));
                return o;
            }
            o.fail("client-not-served", format!("client c{}: {}; pgcat stderr: {}", r.id, st, stderr));
            return o;
        }
    }
    if let Some((sig, p)) = mid_problem {
        o.fail(&sig, format!("{}; pgcat stderr: {}", p, stderr));
        return o;
    }
    if let Some(p) = capacity_problem {
        o.fail("capacity-lost", format!("{}; pgcat stderr: {}", p, stderr));
        return o;
    }
    if let Some(p) = admin_problem {
        o.fail("server-left-marked-active", p);
        return o;
    }
    o
}

/// More than `p` authenticated sessions alive on the listener for longer than 300 ms?
fn over_capacity(log: &[Event], p: usize) -> Option<String> {
    let mut live: HashSet<u64> = HashSet::new();
    let mut over_since: Option<u64> = None;
    let mut last_t = 0u64;
    for e in log {
        last_t = e.t_us;
        match &e.kind {
            EvKind::Open { .. } => {
                live.insert(e.conn);
            }
            EvKind::Close { .. } => {
                live.remove(&e.conn);
            }
            _ => {}
        }
        if live.len() > p {
            if over_since.is_none() {
                over_since = Some(e.t_us);
            }
            if live.len() > p + p.max(2) {
                return Some(format!("{} live backend sessions with pool_size {} at t={}us", live.len(), p, e.t_us));
            }
        } else {
            over_since = None;
        }
        if let Some(s) = over_since {
            if e.t_us - s > 300_000 {
                return Some(format!("more than {} live backend sessions for {} ms (now {}: {:?})", p, (e.t_us - s) / 1000, live.len(), live));
            }
        }
    }
    if let Some(s) = over_since {
        if last_t - s > 300_000 {
            return Some(format!("more than {} live backend sessions from t={}us to the end", p, s));
        }
    }
    None
}

/// pool_size probe clients each open a transaction and hold it simultaneously; None = all succeeded.
async fn capacity_probe(env: &Env, c: &Case, t0: std::time::Instant, id_base: u32) -> Option<String> {
    let mut probes = vec![];
    let mut problem = None;
    // A probe that lands on a pooled connection the server side had killed gets an error and is
    // disconnected by pgcat (stale idle connections are only detected on use): it reconnects and
    // tries again, at most pool_size + 2 times.
    'probes: for i in 0..c.pool_size {
        let mut attempts = 0;
        loop {
            attempts += 1;
            let mut p = match env.client(id_base + i as u32, "u", "db", "pw", &[]).await {
                Ok(c) => c,
                Err(e) => {
                    problem = Some(format!("probe login failed: {}", e));
                    break 'probes;
                }
            };
            let x = prog::run_req(&mut p, &Req::Simple(vec![St::new(Sk::Begin)]), t0).await;
            if matches!(x.end, ReadEnd::Ready(b'T')) && !is_pool_error(&x) {
                probes.push(p);
                break;
            }
            let stale = x.reply.iter().any(|m| m.code == b'E' && proto::error_message(&m.body).contains("error receiving data from server"));
            if stale && attempts < c.pool_size as u32 + 3 {
                continue;
            }
            problem = Some(format!(
                "probe {} could not open its transaction while {} other probes held theirs (pool_size {}): end={:?} errors={:?}",
                id_base + i as u32,
                i,
                c.pool_size,
                x.end,
                crate::cli::errors(&x.reply)
            ));
            break 'probes;
        }
    }
    for p in probes.iter_mut() {
        let _ = prog::run_req(p, &Req::Simple(vec![St::new(Sk::Commit)]), t0).await;
        p.send(&proto::terminate()).await;
        p.close();
    }
    problem
}

/// SHOW POOLS / SHOW SERVERS must report no active server once nobody is inside a transaction
/// (polled up to 2 s because pgcat updates its view asynchronously).
async fn admin_idle_check(env: &Env) -> Option<String> {
    let mut a = env.admin().await.ok()?;
    let deadline = std::time::Instant::now() + Duration::from_secs(2);
    loop {
        let pools = wire::admin_query(&mut a, "SHOW POOLS").await.unwrap_or_default();
        let servers = wire::admin_query(&mut a, "SHOW SERVERS").await.unwrap_or_default();
        let sv_active: i64 = pools.iter().filter(|r| r.get("database").map(|d| d == "db").unwrap_or(false)).filter_map(|r| r.get("sv_active").and_then(|v| v.parse::<i64>().ok())).sum();
        let active_rows = servers.iter().filter(|r| r.get("state").map(|s| s == "active").unwrap_or(false)).count();
        if sv_active == 0 && active_rows == 0 {
            return None;
        }
        if std::time::Instant::now() > deadline {
            return Some(format!("SHOW POOLS sv_active={} and {} SHOW SERVERS rows are 'active' although no client is inside a transaction", sv_active, active_rows));
        }
        tokio::time::sleep(Duration::from_millis(50)).await;
    }
}

// ------------------------------------------------------------------------------ part "reload"
// The bound also holds across a reload that does not touch the pool: its connections are all held, the file changes somewhere
// else, more clients arrive.

#[derive(Clone, Debug, Serialize, Deserialize)]
pub struct ReloadCase {
    pub pool_size: u8,
    pub extra_clients: u8,
    /// 0 = another pool's pool_size, 1 = [general] ban_time, 2 = a pool is added, 3 = identical file, 4 = another pool's password
    /// (a change inside [pools.db] itself, e.g. to its second user, makes pgcat rebuild the pools of all its users and let the old
    /// ones drain: whether old plus new connections may exceed pool_size meanwhile is not settled by the property and not generated)
    pub change: u8,
    pub sighup: bool,
    pub workers: u8,
    pub second_user: bool,
}

pub struct ReloadPart;

impl Part for ReloadPart {
    type Case = ReloadCase;
    fn prop(&self) -> &'static str {
        "C04"
    }
    fn name(&self) -> &'static str {
        "reload"
    }
    fn wire(&self) -> bool {
        true
    }
    fn rule(&self) -> String {
        "pool db,u (pool_size 1..3) next to a pool 'other' (and optionally a second user of db): pool_size clients open a transaction each, then the configuration file changes somewhere else (other pool's pool_size or password, [general], a pool added, or nothing) and is reloaded by RELOAD or SIGHUP, then 1..3 more clients log in and send a statement. Oracle: for 450 ms the backend of db,u never has more than pool_size sessions and none of the newcomers' statements arrives; the open transactions go on on their connections and commit; then every newcomer is served; no session was opened on that backend after the reload; afterwards pool_size probes hold pool_size transactions and nothing is marked active. Non-trivial = the file really changed".into()
    }
    fn cases(&self, tier: Tier) -> u64 {
        tier.pick(160, 2_400)
    }
    fn nontrivial_floor(&self) -> f64 {
        0.3
    }
    fn strategy(&self, _tier: Tier) -> BoxedStrategy<ReloadCase> {
        (1u8..=3, 1u8..=3, 0u8..6, prop::bool::weighted(0.3), prop_oneof![Just(1u8), Just(2u8), Just(4u8)], any::<bool>())
            .prop_map(|(pool_size, extra_clients, change, sighup, workers, second_user)| ReloadCase { pool_size, extra_clients, change: change % 5, sighup, workers, second_user })
            .boxed()
    }
    fn run(&self, c: &ReloadCase, ctx: &mut WorkerCtx) -> Outcome {
        wire::run_async(run_reload(c, ctx))
    }
}

fn reload_config(mocks: &[crate::mock::MockServer], c: &ReloadCase, after: bool) -> PgcatConfig {
    let mut cfg = PgcatConfig::new();
    cfg.set_general("worker_threads", &c.workers.to_string());
    cfg.set_general("connect_timeout", "5000");
    if after && c.change == 1 {
        cfg.set_general("ban_time", "77");
    }
    let mut db = pgc::simple_pool("db", "u", "pw", c.pool_size as u32, vec![ServerDef { host: mocks[0].ip.clone(), port: mocks[0].port, role: "primary".into() }]);
    if c.second_user {
        db.users.push(crate::pgc::UserDef { key: "1".into(), username: "u2".into(), password: Some("pw2".into()), pool_size: 2, extra: vec![] });
    }
    cfg.pools.push(db);
    let other_size = if after && c.change == 0 { 5 } else { 2 };
    let other_pw = if after && c.change == 4 { "newpw" } else { "pw" };
    cfg.pools.push(pgc::simple_pool("other", "u", other_pw, other_size, vec![ServerDef { host: mocks[1].ip.clone(), port: mocks[1].port, role: "primary".into() }]));
    if after && c.change == 2 {
        cfg.pools.push(pgc::simple_pool("added", "u", "pw", 2, vec![ServerDef { host: mocks[1].ip.clone(), port: mocks[1].port, role: "primary".into() }]));
    }
    cfg
}

async fn run_reload(c: &ReloadCase, ctx: &mut WorkerCtx) -> Outcome {
    let mut o = Outcome::pass();
    let specs = vec![BackendSpec::trust("127.0.0.1", "p0"), BackendSpec::trust("127.0.0.1", "p1")];
    let env = match Env::start(ctx, &specs, |m| reload_config(m, c, false)).await {
        Ok(e) => e,
        Err(e) => {
            o.inconclusive = Some(e);
            return o;
        }
    };
    let t0 = std::time::Instant::now();
    let p = c.pool_size as usize;
    o.nontrivial = c.change != 3;
    o.label(&format!("change:{}", c.change));
    o.label(if c.sighup { "sighup" } else { "reload_command" });
    macro_rules! bail {
        ($sig:expr, $d:expr) => {{
            o.fail($sig, format!("{}; case {:?}; pgcat stderr: {}", $d, c, env.pg.stderr_tail(400)));
            env.finish().await;
            return o;
        }};
    }
    // ---- every connection of db,u is held by a transaction
    let mut holders = vec![];
    for i in 0..p {
        let mut h = match env.client(i as u32 + 1, "u", "db", "pw", &[]).await {
            Ok(c) => c,
            Err(e) => {
                o.inconclusive = Some(format!("holder login: {}", e));
                env.finish().await;
                return o;
            }
        };
        let x = prog::run_req(&mut h, &Req::Simple(vec![St::new(Sk::Begin)]), t0).await;
        if !matches!(x.end, ReadEnd::Ready(b'T')) {
            o.inconclusive = Some("holder BEGIN failed".into());
            env.finish().await;
            return o;
        }
        holders.push(h);
    }
    if c.second_user {
        if let Ok(mut k) = env.client(20, "u2", "db", "pw2", &[]).await {
            let _ = prog::run_req(&mut k, &Req::Simple(vec![St::new(Sk::Select)]), t0).await;
        }
    }
    let mark = env.shared.len();
    // ---- the file changes elsewhere
    env.pg.write_config(&reload_config(&env.mocks, c, true).to_toml(env.pg.port));
    if c.sighup {
        env.pg.signal(libc::SIGHUP);
        tokio::time::sleep(Duration::from_millis(300)).await;
    } else {
        let ok = match env.admin().await {
            Ok(mut a) => {
                let (m, e) = a.simple("RELOAD", wire::T_REPLY).await;
                matches!(e, ReadEnd::Ready(_)) && !m.iter().any(|x| x.code == b'E')
            }
            Err(_) => false,
        };
        if !ok {
            bail!("valid-reload-refused", "RELOAD of a valid file failed");
        }
    }
    // ---- newcomers
    let mut extras = vec![];
    let mut extra_tags = vec![];
    for i in 0..c.extra_clients as usize {
        let mut x = match env.client(40 + i as u32, "u", "db", "pw", &[]).await {
            Ok(c) => c,
            Err(e) => bail!("client-not-served", format!("a new client of the untouched pool could not log in after the reload: {}", e)),
        };
        let t = x.tag();
        x.send(&proto::query(&format!("{} SELECT v FROM t", t.render()))).await;
        extra_tags.push(t);
        extras.push(x);
    }
    // ---- the bound holds while everything is held
    // (sessions are counted per pool user: the listener also serves the pool's second user)
    let live_u = |env: &Env| -> usize {
        let ids = env.mocks[0].live_conn_ids();
        let log = env.log();
        ids.iter().filter(|id| log.iter().any(|e| e.server == 0 && e.conn == **id && matches!(&e.kind, EvKind::Open { user, .. } if user == "u"))).count()
    };
    let deadline = std::time::Instant::now() + Duration::from_millis(450);
    while std::time::Instant::now() < deadline {
        let live = live_u(&env);
        if live > p {
            // (transient overlap is not possible here: nothing was released or broken)
            tokio::time::sleep(Duration::from_millis(60)).await;
            let still = live_u(&env);
            if still > p {
                bail!("more-sessions-than-pool-size", format!("{} live sessions on the backend of db,u (pool_size {}) while {} transactions hold every connection and {} newcomers ask for one after a reload that does not touch the pool", still, p, p, c.extra_clients));
            }
        }
        tokio::time::sleep(Duration::from_millis(15)).await;
    }
    let log = env.log();
    for t in &extra_tags {
        if log.iter().any(|ev| matches!(&ev.kind, EvKind::Rx { tags, .. } if tags.contains(t))) {
            bail!("more-sessions-than-pool-size", format!("statement {} of a newcomer was executed although all {} connections of the pool were held by open transactions", t.short(), p));
        }
    }
    // ---- the open transactions go on and finish
    for h in holders.iter_mut() {
        let x = prog::run_req(h, &Req::Simple(vec![St::new(Sk::Select)]), t0).await;
        if !matches!(x.end, ReadEnd::Ready(_)) || prog::check_own_rows(&x).is_err() {
            bail!("client-not-served", format!("a transaction open across the reload got {:?} for its next statement", x.end));
        }
        let x = prog::run_req(h, &Req::Simple(vec![St::new(Sk::Commit)]), t0).await;
        if !matches!(x.end, ReadEnd::Ready(b'I')) {
            bail!("client-not-served", format!("COMMIT of a transaction open across the reload ended {:?}", x.end));
        }
    }
    // ---- waiters are served
    for (i, x) in extras.iter_mut().enumerate() {
        let (m, e) = x.read_until_ready(wire::T_REPLY).await;
        if !matches!(e, ReadEnd::Ready(_)) || m.iter().any(|k| k.code == b'E') {
            bail!("client-not-served", format!("newcomer {} was not served after the holders committed: {:?} {:?}", i, e, crate::cli::errors(&m)));
        }
    }
    // ---- the untouched pool kept its connections: nothing was opened on its backend
    let log = env.log();
    let opened: Vec<u64> = log[mark.min(log.len())..].iter().filter(|e| e.server == 0 && matches!(&e.kind, EvKind::Open { user, .. } if user == "u")).map(|e| e.conn).collect();
    if !opened.is_empty() {
        bail!("unchanged-pool-reopened-connections", format!("{} backend sessions were opened on the backend of db,u after a reload that does not touch that pool", opened.len()));
    }
    for mut h in holders {
        h.send(&proto::terminate()).await;
        h.close();
    }
    for mut x in extras {
        x.send(&proto::terminate()).await;
        x.close();
    }
    tokio::time::sleep(Duration::from_millis(30)).await;
    let probe_case = Case { pool_size: c.pool_size, session_mode: false, workers: c.workers, cache: false, connect_timeout: None, ct_layout: 0, failure_limit: None, clients: vec![], server_kills: vec![], plugins: false };
    if let Some(pb) = capacity_probe(&env, &probe_case, t0, 100).await {
        bail!("capacity-lost", pb);
    }
    if let Some(pb) = admin_idle_check(&env).await {
        bail!("server-left-marked-active", pb);
    }
    env.finish().await;
    o
}
