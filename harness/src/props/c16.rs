//! C16 — PAUSE holds new transactions and RESUME releases every one of them.

use crate::cli::{Cli, ReadEnd};
use crate::engine::{Outcome, Part, PartReport, Tier, WorkerCtx};
use crate::mock::EvKind;
use crate::pgc::{self, PgcatConfig, ServerDef};
use crate::proto;
use crate::sqllex::Tag;
use crate::wire::{self, BackendSpec, Env};
#[cfg(feature = "lib")]
use pgcat::pool::ConnectionPool;
use proptest::prelude::*;
use serde::{Deserialize, Serialize};
use std::time::{Duration, Instant};

pub fn check(tier: Tier, seed: u64, replay: (Option<&str>, Option<&str>)) -> Vec<PartReport> {
    #[cfg(feature = "lib")]
    {
        crate::run_parts!(tier, seed, replay, [LibPart, WirePart])
    }
    #[cfg(not(feature = "lib"))]
    {
        let mut v = vec![crate::engine::lib_unavailable("C16", "lib")];
        v.extend(crate::run_parts!(tier, seed, replay, [WirePart]));
        v
    }
}

// ------------------------------------------------------------------------------ lib part

#[derive(Clone, Debug, Serialize, Deserialize)]
pub struct LibCase {
    /// busy-wait before RESUME, in microseconds
    pub spin_us: u32,
    pub waiters: u8,
    /// jitter (hook) inside wait_paused, microseconds; 0 = off
    pub jitter_us: u32,
    /// resume, pause again and resume: no stored wake-up may leak into the next pause
    pub second_round: bool,
}

#[cfg(feature = "lib")]
pub struct LibPart;

thread_local! {
    static RT: tokio::runtime::Runtime = tokio::runtime::Builder::new_multi_thread().worker_threads(2).enable_all().build().unwrap();
}

#[cfg(feature = "lib")]
impl Part for LibPart {
    type Case = LibCase;
    fn prop(&self) -> &'static str {
        "C16"
    }
    fn name(&self) -> &'static str {
        "lib"
    }
    fn wire(&self) -> bool {
        false
    }
    fn jobs(&self, _tier: Tier) -> usize {
        // PGCAT_VERIF_JITTER_US is process-wide: one worker keeps cases from disturbing each other
        1
    }
    fn rule(&self) -> String {
        "ConnectionPool::{pause, wait_paused, resume} on real threads (2-thread tokio runtime): 1..4 tasks enter wait_paused on a paused pool, RESUME follows after a generated busy-wait of 0..3000 µs, with the cfg(pgcat_verif) jitter hook widening the window inside wait_paused to 0/1/3 ms; optionally a second PAUSE/arrival/RESUME round. Oracle: every waiter returns within 1 s of RESUME, and a waiter that arrives after the second PAUSE does not return before the second RESUME. Non-trivial = RESUME issued while at least one task was inside wait_paused (always, by construction) with jitter on or several waiters".into()
    }
    fn cases(&self, tier: Tier) -> u64 {
        tier.pick(6_000, 120_000)
    }
    fn strategy(&self, _tier: Tier) -> BoxedStrategy<LibCase> {
        (0u32..3000, 1u8..=4, prop_oneof![3 => Just(0u32), 2 => Just(1000u32), 1 => Just(3000u32)], prop::bool::weighted(0.3))
            .prop_map(|(spin_us, waiters, jitter_us, second_round)| LibCase { spin_us, waiters, jitter_us, second_round })
            .boxed()
    }
    fn run(&self, c: &LibCase, _ctx: &mut WorkerCtx) -> Outcome {
        let mut o = Outcome::pass();
        o.nontrivial = c.jitter_us > 0 || c.waiters > 1;
        std::env::set_var("PGCAT_VERIF_JITTER_US", c.jitter_us.to_string());
        let pool = ConnectionPool::default();
        pool.pause();
        let res: Result<(), (String, String)> = RT.with(|rt| {
            let mut handles = vec![];
            for _ in 0..c.waiters {
                let p = pool.clone();
                handles.push(rt.spawn(async move {
                    p.wait_paused().await;
                }));
            }
            let t = Instant::now();
            while (t.elapsed().as_micros() as u32) < c.spin_us {
                std::hint::spin_loop();
            }
            pool.resume();
            for (k, h) in handles.into_iter().enumerate() {
                let r = rt.block_on(async { tokio::time::timeout(Duration::from_secs(1), h).await });
                if r.is_err() {
                    return Err(("waiter-not-released".to_string(), format!("waiter {} of {} still blocked 1 s after resume() (spin {} µs, jitter {} µs)", k, c.waiters, c.spin_us, c.jitter_us)));
                }
            }
            if c.second_round {
                pool.pause();
                let p = pool.clone();
                let done = std::sync::Arc::new(std::sync::atomic::AtomicBool::new(false));
                let d2 = done.clone();
                let h = rt.spawn(async move {
                    p.wait_paused().await;
                    d2.store(true, std::sync::atomic::Ordering::SeqCst);
                });
                std::thread::sleep(Duration::from_millis(5 + c.jitter_us as u64 / 1000));
                if done.load(std::sync::atomic::Ordering::SeqCst) {
                    return Err(("passed-a-paused-pool".to_string(), "a task that arrived after the second pause() returned from wait_paused before resume()".to_string()));
                }
                pool.resume();
                let r = rt.block_on(async { tokio::time::timeout(Duration::from_secs(1), h).await });
                if r.is_err() {
                    return Err(("waiter-not-released".to_string(), "second-round waiter still blocked 1 s after resume()".to_string()));
                }
            }
            Ok(())
        });
        std::env::set_var("PGCAT_VERIF_JITTER_US", "0");
        if let Err((sig, d)) = res {
            o.fail(&sig, d);
        }
        o
    }
}

// ------------------------------------------------------------------------------ wire part

#[derive(Clone, Debug, Serialize, Deserialize)]
pub enum Step {
    /// autocommit statement of client c (held if its pool is paused)
    Stmt(u8),
    Begin(u8),
    Commit(u8),
    /// PAUSE: true = only pool db, false = all pools
    Pause(bool),
    Resume(bool),
    /// (pool db paused) client c sends a new statement and RESUME follows after this many µs
    RaceResume(u8, u16),
    /// a new client connects and immediately sends a statement
    Arrive,
    /// client c sends two autocommit statements in one write; PAUSE db is issued while the first is still running
    PipelinedAcrossPause(u8),
    /// client c is inside an autocommit COPY FROM STDIN (CopyInResponse received) when PAUSE db is issued; it then sends its data
    /// and CopyDone (bool: CopyFail instead)
    CopyAcrossPause(u8, bool),
    /// RELOAD with a changed pool_size of pool db (the pool object is rebuilt) - possibly while the pool is paused and clients are held
    ReloadDb,
}

#[derive(Clone, Debug, Serialize, Deserialize)]
pub struct WireCase {
    pub clients: u8,
    pub jitter_us: u32,
    pub workers: u8,
    pub steps: Vec<Step>,
}

pub struct WirePart;

impl Part for WirePart {
    type Case = WireCase;
    fn prop(&self) -> &'static str {
        "C16"
    }
    fn name(&self) -> &'static str {
        "wire"
    }
    fn wire(&self) -> bool {
        true
    }
    fn rule(&self) -> String {
        "two pools (db with 2..5 clients, db2 with one control client), histories of 4..16 steps over {autocommit statement, BEGIN, COMMIT, PAUSE / RESUME for all pools or for db only, a new statement raced against RESUME with a generated 0..4000 µs gap, a newly arriving client, two pipelined autocommit statements with PAUSE arriving while the first runs, an autocommit COPY FROM STDIN with PAUSE arriving after its CopyInResponse (finished by CopyDone or CopyFail), a RELOAD that rebuilds pool db - also while it is paused and clients are held (a reload is not a RESUME)}, wait_paused jitter hook 0/1/3 ms, worker_threads 1/2/4. Oracle: a transaction whose first message is sent after the PAUSE reply is not received by any backend until RESUME has been sent (transactions already open keep running and COMMIT), the unpaused pool keeps answering, and after the RESUME reply every held statement completes. Non-trivial = RESUME issued while at least one client was held".into()
    }
    fn cases(&self, tier: Tier) -> u64 {
        tier.pick(1_200, 16_000)
    }
    fn strategy(&self, _tier: Tier) -> BoxedStrategy<WireCase> {
        let step = prop_oneof![
            4 => (0u8..6).prop_map(Step::Stmt),
            2 => (0u8..6).prop_map(Step::Begin),
            2 => (0u8..6).prop_map(Step::Commit),
            3 => any::<bool>().prop_map(Step::Pause),
            2 => any::<bool>().prop_map(Step::Resume),
            3 => ((0u8..6), prop_oneof![Just(0u16), 1u16..400, 400u16..4000]).prop_map(|(c, d)| Step::RaceResume(c, d)),
            1 => Just(Step::Arrive),
            1 => (0u8..6).prop_map(Step::PipelinedAcrossPause),
            1 => ((0u8..6), prop::bool::weighted(0.25)).prop_map(|(c, f)| Step::CopyAcrossPause(c, f)),
            1 => Just(Step::ReloadDb),
        ];
        (2u8..=5, prop_oneof![2 => Just(0u32), 2 => Just(1000u32), 1 => Just(3000u32)], prop_oneof![Just(1u8), Just(2u8), Just(4u8)], prop::collection::vec(step, 4..17))
            .prop_map(|(clients, jitter_us, workers, steps)| WireCase { clients, jitter_us, workers, steps })
            .boxed()
    }
    fn run(&self, c: &WireCase, ctx: &mut WorkerCtx) -> Outcome {
        wire::run_async(run_wire(c, ctx))
    }
}

fn config(mocks: &[crate::mock::MockServer], c: &WireCase) -> PgcatConfig {
    config_gen(mocks, c, 0)
}

/// `gen` = number of reloads so far: the pool_size of db alternates so that each reload rebuilds that pool
fn config_gen(mocks: &[crate::mock::MockServer], c: &WireCase, gen: u32) -> PgcatConfig {
    let mut cfg = PgcatConfig::new();
    cfg.set_general("worker_threads", &c.workers.to_string());
    cfg.set_general("connect_timeout", "5000");
    for (i, name) in ["db", "db2"].iter().enumerate() {
        let servers = vec![ServerDef { host: mocks[i].ip.clone(), port: mocks[i].port, role: "primary".into() }];
        cfg.pools.push(pgc::simple_pool(name, "u", "pw", if i == 0 { 6 + (gen % 2) } else { 6 }, servers));
    }
    cfg
}

async fn run_wire(c: &WireCase, ctx: &mut WorkerCtx) -> Outcome {
    let mut o = Outcome::pass();
    let specs = vec![BackendSpec::trust("127.0.0.1", "p0"), BackendSpec::trust("127.0.0.1", "p1")];
    let env = match Env::start_with_env(ctx, &specs, &[("PGCAT_VERIF_JITTER_US", c.jitter_us.to_string())], |m| config(m, c)).await {
        Ok(e) => e,
        Err(e) => {
            o.inconclusive = Some(e);
            return o;
        }
    };
    let n = c.clients as usize;
    let mut clis: Vec<Cli> = vec![];
    for i in 0..n {
        match env.client(i as u32 + 1, "u", "db", "pw", &[]).await {
            Ok(cl) => clis.push(cl),
            Err(e) => {
                o.inconclusive = Some(format!("login: {}", e));
                env.finish().await;
                return o;
            }
        }
    }
    let mut control = match env.client(50, "u", "db2", "pw", &[]).await {
        Ok(c) => c,
        Err(e) => {
            o.inconclusive = Some(format!("login control: {}", e));
            env.finish().await;
            return o;
        }
    };
    let mut admin = match env.admin().await {
        Ok(a) => a,
        Err(e) => {
            o.inconclusive = Some(e);
            env.finish().await;
            return o;
        }
    };
    let mut paused_db = false;
    let mut paused_db2 = false;
    let mut reload_gen = 0u32;
    // a reload rebuilt the paused pool (label only)
    #[allow(unused_assignments)]
    let mut pause_unsettled = false;
    let mut in_txn = vec![false; n];
    // clients with a statement in flight that the pause holds: (client index, tag)
    let mut held: Vec<(usize, Tag)> = vec![];
    let mut arrivals: Vec<Cli> = vec![];
    let mut held_arrivals: Vec<(usize, Tag)> = vec![];
    let tag_seen = |env: &Env, t: Tag| env.log().iter().any(|ev| matches!(&ev.kind, EvKind::Rx { tags, .. } if tags.contains(&t)));

    macro_rules! fail_and_finish {
        ($sig:expr, $d:expr) => {{
            o.fail($sig, format!("{}; steps {:?}", $d, c.steps));
            env.shared.release_all();
            env.finish().await;
            return o;
        }};
    }

    for (si, st) in c.steps.iter().enumerate() {
        o.sub_evaluations += 1;
        match st {
            Step::Stmt(k) | Step::Begin(k) => {
                let i = *k as usize % n;
                if held.iter().any(|(h, _)| *h == i) {
                    continue;
                }
                let is_begin = matches!(st, Step::Begin(_));
                if is_begin && in_txn[i] {
                    continue;
                }
                let t = clis[i].tag();
                let sql = if is_begin { format!("{} BEGIN", t.render()) } else { format!("{} SELECT v FROM t", t.render()) };
                clis[i].send(&proto::query(&sql)).await;
                if paused_db && !in_txn[i] {
                    // a new transaction on a paused pool: must be held
                    held.push((i, t));
                    if is_begin {
                        in_txn[i] = true;
                    }
                    o.label("held_by_pause");
                } else {
                    let (_m, e) = clis[i].read_until_ready(wire::T_REPLY).await;
                    if !matches!(e, ReadEnd::Ready(_)) {
                        let what = if in_txn[i] && paused_db { "open-transaction-blocked-by-pause" } else { "statement-not-answered" };
                        fail_and_finish!(what, format!("step {}: statement of c{} (in_txn={}, paused={}) ended {:?}", si, i + 1, in_txn[i], paused_db, e));
                    }
                    if is_begin {
                        in_txn[i] = true;
                    }
                }
            }
            Step::Commit(k) => {
                let i = *k as usize % n;
                if !in_txn[i] || held.iter().any(|(h, _)| *h == i) {
                    continue;
                }
                let t = clis[i].tag();
                let (_m, e) = clis[i].simple(&format!("{} COMMIT", t.render()), wire::T_REPLY).await;
                if !matches!(e, ReadEnd::Ready(_)) {
                    fail_and_finish!("open-transaction-blocked-by-pause", format!("step {}: COMMIT of c{} (paused={}) ended {:?}", si, i + 1, paused_db, e));
                }
                in_txn[i] = false;
            }
            Step::Arrive => {
                let id = 60 + arrivals.len() as u32;
                match env.client(id, "u", "db", "pw", &[]).await {
                    Ok(mut cl) => {
                        let t = cl.tag();
                        cl.send(&proto::query(&format!("{} SELECT v FROM t", t.render()))).await;
                        if paused_db {
                            held_arrivals.push((arrivals.len(), t));
                            o.label("arrival_held_by_pause");
                        } else {
                            let (_m, e) = cl.read_until_ready(wire::T_REPLY).await;
                            if !matches!(e, ReadEnd::Ready(_)) {
                                fail_and_finish!("statement-not-answered", format!("step {}: arriving client's statement ended {:?}", si, e));
                            }
                        }
                        arrivals.push(cl);
                    }
                    Err(e) => {
                        o.inconclusive = Some(format!("arrival login: {}", e));
                        break;
                    }
                }
            }
            Step::PipelinedAcrossPause(k) => {
                let i = *k as usize % n;
                if paused_db || in_txn[i] || held.iter().any(|(h, _)| *h == i) {
                    continue;
                }
                let (t1, t2) = (clis[i].tag(), clis[i].tag());
                let mut b = proto::query(&format!("{} SELECT v FROM t /*@ hold */", t1.render()));
                b.extend_from_slice(&proto::query(&format!("{} SELECT v FROM t", t2.render())));
                clis[i].send(&b).await;
                if env.shared.wait_tag(t1, wire::T_REPLY).await.is_none() {
                    o.inconclusive = Some("first pipelined statement never reached the backend".into());
                    break;
                }
                let (m, e) = admin.simple("PAUSE db,u", wire::T_REPLY).await;
                if !matches!(e, ReadEnd::Ready(_)) || m.iter().any(|x| x.code == b'E') {
                    fail_and_finish!("pause-command-failed", format!("PAUSE db,u -> {:?} {:?}", e, crate::cli::errors(&m)));
                }
                paused_db = true;
                // the running transaction finishes normally ...
                env.shared.release(t1);
                let (_m, e) = clis[i].read_until_ready(wire::T_REPLY).await;
                if !matches!(e, ReadEnd::Ready(_)) {
                    fail_and_finish!("open-transaction-blocked-by-pause", format!("step {}: the statement of c{} that was running when PAUSE arrived ended {:?}", si, i + 1, e));
                }
                // ... and the next one, although its bytes were sent long ago, is a new transaction on a paused pool
                tokio::time::sleep(Duration::from_millis(30)).await;
                if tag_seen(&env, t2) {
                    fail_and_finish!("transaction-started-while-paused", format!("step {}: the second pipelined statement {} of c{} reached a backend while the pool was paused", si, t2.short(), i + 1));
                }
                held.push((i, t2));
                o.label("pipelined_across_pause");
            }
            Step::CopyAcrossPause(k, fail) => {
                let i = *k as usize % n;
                if paused_db || in_txn[i] || held.iter().any(|(h, _)| *h == i) {
                    continue;
                }
                let t = clis[i].tag();
                clis[i].send(&proto::query(&format!("{} COPY t FROM STDIN", t.render()))).await;
                let (m, e) = clis[i].read_until_code(&[b'G'], wire::T_REPLY).await;
                if !m.iter().any(|x| x.code == b'G') {
                    fail_and_finish!("statement-not-answered", format!("step {}: COPY FROM STDIN of c{} got no CopyInResponse: {:?}", si, i + 1, e));
                }
                let (m, e) = admin.simple("PAUSE db,u", wire::T_REPLY).await;
                if !matches!(e, ReadEnd::Ready(_)) || m.iter().any(|x| x.code == b'E') {
                    fail_and_finish!("pause-command-failed", format!("PAUSE db,u -> {:?} {:?}", e, crate::cli::errors(&m)));
                }
                paused_db = true;
                // the COPY was running when the pool was paused: it finishes normally
                let mut b = proto::copy_data(format!("{}:row1\n", t.short()).as_bytes());
                b.extend_from_slice(&proto::copy_data(format!("{}:row2\n", t.short()).as_bytes()));
                if *fail {
                    b.extend_from_slice(&proto::copy_fail("client gave up"));
                } else {
                    b.extend_from_slice(&proto::copy_done());
                }
                clis[i].send(&b).await;
                let (_m, e) = clis[i].read_until_ready(wire::T_REPLY).await;
                if !matches!(e, ReadEnd::Ready(_)) {
                    fail_and_finish!("open-transaction-blocked-by-pause", format!("step {}: the COPY FROM STDIN of c{} that was running when PAUSE arrived could not finish while the pool was paused: {:?}", si, i + 1, e));
                }
                o.label("copy_across_pause");
                o.nontrivial = true;
            }
            Step::ReloadDb => {
                reload_gen += 1;
                env.pg.write_config(&config_gen(&env.mocks, c, reload_gen).to_toml(env.pg.port));
                let (m, e) = admin.simple("RELOAD", wire::T_REPLY).await;
                if !matches!(e, ReadEnd::Ready(_)) || m.iter().any(|x| x.code == b'E') {
                    o.inconclusive = Some(format!("RELOAD of a valid file failed: {:?} {:?}", e, crate::cli::errors(&m)));
                    break;
                }
                if paused_db {
                    // a reload is not a RESUME: the rebuilt pool is still paused, and the RESUME that follows must reach the
                    // clients held on the pool object it replaced
                    pause_unsettled = true;
                    o.label("reload_while_paused");
                    if !held.is_empty() || !held_arrivals.is_empty() {
                        o.label("reload_while_clients_held");
                    }
                }
            }
            Step::Pause(only_db) => {
                let sql = if *only_db { "PAUSE db,u" } else { "PAUSE" };
                let (m, e) = admin.simple(sql, wire::T_REPLY).await;
                if !matches!(e, ReadEnd::Ready(_)) || m.iter().any(|x| x.code == b'E') {
                    fail_and_finish!("pause-command-failed", format!("{} -> {:?} {:?}", sql, e, crate::cli::errors(&m)));
                }
                paused_db = true;
                if !only_db {
                    paused_db2 = true;
                }
            }
            Step::Resume(_) | Step::RaceResume(_, _) => {
                let only_db = match st {
                    Step::Resume(b) => *b,
                    _ => true,
                };
                if let Step::RaceResume(k, delay) = st {
                    let i = *k as usize % n;
                    if !paused_db || in_txn[i] || held.iter().any(|(h, _)| *h == i) {
                        continue;
                    }
                    let t = clis[i].tag();
                    clis[i].send(&proto::query(&format!("{} SELECT v FROM t", t.render()))).await;
                    held.push((i, t));
                    o.label("raced_resume");
                    if *delay > 0 {
                        let t0 = Instant::now();
                        while (t0.elapsed().as_micros() as u16) < *delay {
                            tokio::task::yield_now().await;
                        }
                    }
                } else if paused_db && (!held.is_empty() || !held_arrivals.is_empty()) {
                    // (a) nothing held may have reached a backend while the pool was paused. Statements
                    // sent a while ago are checked; the check is an absence assertion (can only miss).
                    tokio::time::sleep(Duration::from_millis(15)).await;
                    for (i, t) in &held {
                        if tag_seen(&env, *t) {
                            fail_and_finish!("transaction-started-while-paused", format!("step {}: statement {} of c{} was sent after PAUSE was acknowledged and reached a backend before RESUME", si, t.short(), i + 1));
                        }
                    }
                    for (a, t) in &held_arrivals {
                        if tag_seen(&env, *t) {
                            fail_and_finish!("transaction-started-while-paused", format!("step {}: statement {} of arriving client {} reached a backend while the pool was paused", si, t.short(), a));
                        }
                    }
                }
                if !held.is_empty() || !held_arrivals.is_empty() {
                    o.nontrivial = true;
                }
                let sql = if only_db { "RESUME db,u" } else { "RESUME" };
                let (m, e) = admin.simple(sql, wire::T_REPLY).await;
                if !matches!(e, ReadEnd::Ready(_)) || m.iter().any(|x| x.code == b'E') {
                    fail_and_finish!("resume-command-failed", format!("{} -> {:?} {:?}", sql, e, crate::cli::errors(&m)));
                }
                paused_db = false;
                pause_unsettled = false;
                if !only_db {
                    paused_db2 = false;
                }
                // (b) every held client proceeds
                for (i, t) in held.drain(..) {
                    let (_m, e) = clis[i].read_until_ready(wire::T_REPLY).await;
                    if !matches!(e, ReadEnd::Ready(_)) {
                        fail_and_finish!("held-client-not-released", format!("step {}: c{}'s statement {} was held by PAUSE and is still unanswered {:?} after the RESUME reply (jitter {} µs); pgcat stderr {}", si, i + 1, t.short(), e, c.jitter_us, env.pg.stderr_tail(300)));
                    }
                }
                for (a, t) in held_arrivals.drain(..) {
                    let (_m, e) = arrivals[a].read_until_ready(wire::T_REPLY).await;
                    if !matches!(e, ReadEnd::Ready(_)) {
                        fail_and_finish!("held-client-not-released", format!("step {}: arriving client's statement {} still unanswered {:?} after the RESUME reply", si, t.short(), e));
                    }
                }
            }
        }
        // (c) the control pool answers whenever it is not paused itself
        if !paused_db2 && si % 3 == 0 {
            let t = control.tag();
            let (_m, e) = control.simple(&format!("{} SELECT v FROM t", t.render()), wire::T_REPLY).await;
            if !matches!(e, ReadEnd::Ready(_)) {
                fail_and_finish!("other-pool-affected", format!("step {}: the client of pool db2 (not paused) got no answer: {:?}", si, e));
            }
        }
    }
    // leave cleanly: resume everything so held clients are not part of the verdict twice
    if paused_db || paused_db2 {
        let _ = admin.simple("RESUME", wire::T_REPLY).await;
        for (i, t) in held.drain(..) {
            let (_m, e) = clis[i].read_until_ready(wire::T_REPLY).await;
            if !matches!(e, ReadEnd::Ready(_)) && o.violation.is_none() && o.inconclusive.is_none() {
                o.fail("held-client-not-released", format!("c{}'s statement {} still unanswered after the final RESUME; steps {:?}", i + 1, t.short(), c.steps));
            }
        }
    }
    env.finish().await;
    o
}
