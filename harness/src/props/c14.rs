//! C14 — live reload is safe: valid configs take effect, invalid ones change nothing.

use crate::cli::{AuthOutcome, Cli, Password, ReadEnd};
use crate::engine::{Outcome, Part, PartReport, Tier, WorkerCtx};
use crate::mock::{EvKind, Event};
use crate::pgc::{PgcatConfig, PoolDef, ServerDef, ShardDef, UserDef};
use crate::prog::{self, Req, Sk, St};
use crate::proto;
use crate::sqllex::Tag;
use crate::wire::{self, BackendSpec, Env};
use proptest::prelude::*;
use serde::{Deserialize, Serialize};
use std::collections::{HashMap, HashSet};
use std::time::{Duration, Instant};

pub fn check(tier: Tier, seed: u64, replay: (Option<&str>, Option<&str>)) -> Vec<PartReport> {
    crate::run_parts!(tier, seed, replay, [WirePart])
}

#[derive(Clone, Debug, Serialize, Deserialize, PartialEq)]
pub enum Change {
    Identical,
    GeneralOnly,
    RemovePoolB,
    AddPoolC,
    RepointA,
    AddReplicaA,
    PoolSizeA,
    PoolModeA,
    PasswordB,
    /// pb has a second user u2 from the start; the new file no longer has it
    RemoveUserB,
    /// pa starts as primary A1 + replica AR (default_role primary); the new file swaps the two roles and nothing else
    SwapRolesA,
    InvalidSyntax(u8),
    /// semantic defect (kind) in pool index (0 = pa, 1 = pb, 2 = an added pool pc)
    InvalidSemantic(u8, u8),
}

#[derive(Clone, Debug, Serialize, Deserialize)]
pub struct Case {
    pub change: Change,
    pub sighup: bool,
    /// client of pool pa is inside a transaction across the reload
    pub straddle_a: bool,
    /// client of pool pb has a statement held at the backend across the reload
    pub straddle_b: bool,
    pub workers: u8,
    /// a third, untouched pool exists from the start (more pools = more validation orders)
    pub extra_pool: bool,
    /// clients that are not otherwise busy have sent Parse/Bind/Execute but not yet Sync when the reload happens; the Sync
    /// (= the checkout) follows after it
    #[serde(default)]
    pub open_batch: bool,
}

pub struct WirePart;

impl Part for WirePart {
    type Case = Case;
    fn prop(&self) -> &'static str {
        "C14"
    }
    fn name(&self) -> &'static str {
        "wire"
    }
    fn wire(&self) -> bool {
        true
    }
    fn rule(&self) -> String {
        "old configuration = pools pa and pb (optionally an untouched pd) on their own mock backends; new configuration = one mutation: identical, [general]-only, pool pb removed, pool pc added, pa re-pointed to another backend, replica added to pa, pa's pool_size or pool_mode changed, pb's password changed, one of pb's two users removed, the roles of pa's primary and replica swapped, syntactically invalid TOML (3 kinds), semantically invalid (bad default_role, non-numeric shard, out-of-range or unknown default_shard, splitting without parser, user without password, a sharding regex that does not compile, two primaries in a shard) in pa, pb or an added pool; trigger admin RELOAD or SIGHUP; optionally the pa client is inside a transaction and the pb client has a statement held at the backend while the reload happens, optionally the clients that are not busy have an extended-protocol batch open (Parse/Bind/Execute sent, Sync following after the reload). Oracle: invalid => SHOW CONFIG/SHOW DATABASES identical, no backend session opened or closed by the reload, later transactions on the same backend connections; valid => unchanged pools keep their backend connections (none opened), changed/added/removed pools are in effect for the next transaction (re-pointed pool served by the new backend only, removed pool answered with an error and nothing reaching any backend, added pool reachable), and work open across the reload completes on its original connection with the client's own rows. Non-trivial = a definition change or an invalid file while at least one client has open work (transaction, held statement or unsynced batch)".into()
    }
    fn cases(&self, tier: Tier) -> u64 {
        tier.pick(1_000, 14_000)
    }
    fn strategy(&self, _tier: Tier) -> BoxedStrategy<Case> {
        let change = prop_oneof![
            2 => Just(Change::Identical),
            1 => Just(Change::GeneralOnly),
            3 => Just(Change::RemovePoolB),
            2 => Just(Change::AddPoolC),
            3 => Just(Change::RepointA),
            1 => Just(Change::AddReplicaA),
            1 => Just(Change::PoolSizeA),
            1 => Just(Change::PoolModeA),
            1 => Just(Change::PasswordB),
            2 => Just(Change::RemoveUserB),
            2 => Just(Change::SwapRolesA),
            2 => (0u8..3).prop_map(Change::InvalidSyntax),
            7 => (0u8..9, 0u8..3).prop_map(|(k, p)| Change::InvalidSemantic(k, p)),
        ];
        (change, any::<bool>(), any::<bool>(), any::<bool>(), prop_oneof![Just(1u8), Just(2u8), Just(4u8)], any::<bool>(), prop::bool::weighted(0.4))
            .prop_map(|(change, sighup, straddle_a, straddle_b, workers, extra_pool, open_batch)| Case { change, sighup, straddle_a, straddle_b, workers, extra_pool, open_batch })
            .boxed()
    }
    fn run(&self, c: &Case, ctx: &mut WorkerCtx) -> Outcome {
        wire::run_async(run_case(c, ctx))
    }
}

// mock indexes
const A1: usize = 0;
const A2: usize = 1;
const B1: usize = 2;
const C1: usize = 3;
const AR: usize = 4;
const D1: usize = 5;

fn pool(name: &str, mocks: &[crate::mock::MockServer], servers: &[(usize, &str)], pool_size: u32, mode: &str, password: &str) -> PoolDef {
    PoolDef {
        name: name.into(),
        settings: vec![("pool_mode".into(), format!("\"{}\"", mode))],
        users: vec![UserDef { key: "0".into(), username: "u".into(), password: Some(password.into()), pool_size, extra: vec![] }],
        shards: vec![ShardDef {
            id: "0".into(),
            database: format!("{}_db", name),
            servers: servers.iter().map(|(i, r)| ServerDef { host: mocks[*i].ip.clone(), port: mocks[*i].port, role: r.to_string() }).collect(),
            mirrors: vec![],
        }],
        raw_tail: String::new(),
    }
}

fn base_config(mocks: &[crate::mock::MockServer], c: &Case) -> PgcatConfig {
    let mut cfg = PgcatConfig::new();
    cfg.set_general("worker_threads", &c.workers.to_string());
    cfg.set_general("connect_timeout", "2000");
    if c.change == Change::SwapRolesA {
        let mut pa = pool("pa", mocks, &[(A1, "primary"), (AR, "replica")], 2, "transaction", "pw");
        pa.settings.push(("default_role".into(), "\"primary\"".into()));
        cfg.pools.push(pa);
    } else {
        cfg.pools.push(pool("pa", mocks, &[(A1, "primary")], 2, "transaction", "pw"));
    }
    let mut pb = pool("pb", mocks, &[(B1, "primary")], 2, "transaction", "pw");
    if c.change == Change::RemoveUserB {
        pb.users.push(UserDef { key: "1".into(), username: "u2".into(), password: Some("pw2".into()), pool_size: 2, extra: vec![] });
    }
    cfg.pools.push(pb);
    if c.extra_pool {
        cfg.pools.push(pool("pd", mocks, &[(D1, "primary")], 2, "transaction", "pw"));
    }
    cfg
}

/// Returns (new TOML text, is it valid?)
fn new_config(mocks: &[crate::mock::MockServer], c: &Case, port: u16) -> (String, bool) {
    let mut cfg = base_config(mocks, c);
    let mut valid = true;
    match &c.change {
        Change::Identical => {}
        Change::GeneralOnly => cfg.set_general("ban_time", "77"),
        Change::RemovePoolB => cfg.pools.retain(|p| p.name != "pb"),
        Change::AddPoolC => cfg.pools.push(pool("pc", mocks, &[(C1, "primary")], 2, "transaction", "pw")),
        Change::RepointA => cfg.pools[0] = pool("pa", mocks, &[(A2, "primary")], 2, "transaction", "pw"),
        Change::AddReplicaA => cfg.pools[0] = pool("pa", mocks, &[(A1, "primary"), (AR, "replica")], 2, "transaction", "pw"),
        Change::PoolSizeA => cfg.pools[0] = pool("pa", mocks, &[(A1, "primary")], 3, "transaction", "pw"),
        Change::PoolModeA => cfg.pools[0] = pool("pa", mocks, &[(A1, "primary")], 2, "session", "pw"),
        Change::PasswordB => cfg.pools[1] = pool("pb", mocks, &[(B1, "primary")], 2, "transaction", "newpw"),
        Change::RemoveUserB => cfg.pools[1].users.truncate(1),
        Change::SwapRolesA => {
            let mut pa = pool("pa", mocks, &[(A1, "replica"), (AR, "primary")], 2, "transaction", "pw");
            pa.settings.push(("default_role".into(), "\"primary\"".into()));
            cfg.pools[0] = pa;
        }
        Change::InvalidSyntax(_) => valid = false,
        Change::InvalidSemantic(kind, which) => {
            valid = false;
            let idx = match which % 3 {
                0 => 0,
                1 => 1,
                _ => {
                    cfg.pools.push(pool("pc", mocks, &[(C1, "primary")], 2, "transaction", "pw"));
                    cfg.pools.len() - 1
                }
            };
            let p = &mut cfg.pools[idx];
            match kind % 9 {
                0 => p.settings.push(("default_role".into(), "\"master\"".into())),
                1 => p.shards[0].id = "zero".into(),
                2 => p.settings.push(("default_shard".into(), "\"shard_5\"".into())),
                3 => p.settings.push(("query_parser_read_write_splitting".into(), "true".into())),
                4 => p.users[0].password = None,
                5 => p.settings.push(("sharding_key_regex".into(), "'/\\* sharding_key: (\\d+ \\*/'".into())),
                6 => p.settings.push(("shard_id_regex".into(), "'[unclosed'".into())),
                7 => {
                    let extra = p.shards[0].servers[0].clone();
                    p.shards[0].servers.push(ServerDef { host: extra.host, port: extra.port + 1, role: "primary".into() });
                }
                _ => p.settings.push(("default_shard".into(), "\"first\"".into())),
            }
        }
    }
    let mut text = cfg.to_toml(port);
    if let Change::InvalidSyntax(k) = &c.change {
        text = match k % 3 {
            0 => format!("{}\n[pools.pa\nbroken = ", text),
            1 => text.replace("pool_size = 2", "pool_size = two"),
            _ => "this is not toml at all {{{".to_string(),
        };
    }
    (text, valid)
}

/// Was this backend session opened before log position `mark` (the reload)?
fn open_before(log: &[Event], mark: usize, c: (usize, u64)) -> bool {
    log.iter().take(mark).any(|e| e.server == c.0 && e.conn == c.1 && matches!(e.kind, EvKind::Open { .. }))
}

fn conns_of_tag(log: &[Event], t: Tag) -> Vec<(usize, u64)> {
    log.iter().filter_map(|e| match &e.kind {
        EvKind::Rx { tags, .. } if tags.contains(&t) => Some((e.server, e.conn)),
        _ => None,
    }).collect()
}

fn strip_volatile(rows: &[HashMap<String, String>]) -> Vec<Vec<(String, String)>> {
    let mut out: Vec<Vec<(String, String)>> = rows
        .iter()
        .map(|r| {
            let mut v: Vec<(String, String)> = r.iter().filter(|(k, _)| !["current_connections", "paused"].contains(&k.as_str())).map(|(k, v)| (k.clone(), v.clone())).collect();
            v.sort();
            v
        })
        .collect();
    out.sort();
    out
}

async fn run_case(c: &Case, ctx: &mut WorkerCtx) -> Outcome {
    let mut o = Outcome::pass();
    let specs: Vec<BackendSpec> = ["a1", "a2", "b1", "c1", "ar", "d1"].iter().map(|l| BackendSpec::trust("127.0.0.1", l)).collect();
    let mut env = match Env::start(ctx, &specs, |m| base_config(m, c)).await {
        Ok(e) => e,
        Err(e) => {
            o.inconclusive = Some(e);
            return o;
        }
    };
    let t0 = Instant::now();
    macro_rules! bail {
        ($sig:expr, $d:expr) => {{
            o.fail($sig, format!("{}; case {:?}; pgcat stderr: {}", $d, c, env.pg.stderr_tail(400)));
            env.shared.release_all();
            env.finish().await;
            return o;
        }};
    }
    macro_rules! inconclusive {
        ($d:expr) => {{
            o.inconclusive = Some($d);
            env.shared.release_all();
            env.finish().await;
            return o;
        }};
    }
    let mut ca = match env.client(1, "u", "pa", "pw", &[]).await {
        Ok(c) => c,
        Err(e) => inconclusive!(e),
    };
    let mut cb = match env.client(2, "u", "pb", "pw", &[]).await {
        Ok(c) => c,
        Err(e) => inconclusive!(e),
    };
    let mut admin = match env.admin().await {
        Ok(a) => a,
        Err(e) => inconclusive!(e),
    };
    let mut cu2: Option<Cli> = None;
    if c.change == Change::RemoveUserB {
        let mut k = match env.client(3, "u2", "pb", "pw2", &[]).await {
            Ok(c) => c,
            Err(e) => inconclusive!(e),
        };
        let x = prog::run_req(&mut k, &Req::Simple(vec![St::new(Sk::Select)]), t0).await;
        if !matches!(x.end, ReadEnd::Ready(_)) {
            inconclusive!("pre-reload traffic of u2 not answered".to_string());
        }
        cu2 = Some(k);
    }
    // ---- traffic before the reload
    let xa = prog::run_req(&mut ca, &Req::Simple(vec![St::new(Sk::Select)]), t0).await;
    let xb = prog::run_req(&mut cb, &Req::Simple(vec![St::new(Sk::Select)]), t0).await;
    if !matches!(xa.end, ReadEnd::Ready(_)) || !matches!(xb.end, ReadEnd::Ready(_)) {
        inconclusive!("pre-reload traffic not answered".to_string());
    }
    let log0 = env.log();
    let a_before = conns_of_tag(&log0, xa.tags[0]);
    let b_before = conns_of_tag(&log0, xb.tags[0]);
    // ---- open work across the reload
    let mut a_txn_conn: Option<(usize, u64)> = None;
    if c.straddle_a {
        let x = prog::run_req(&mut ca, &Req::Simple(vec![St::new(Sk::Begin)]), t0).await;
        if !matches!(x.end, ReadEnd::Ready(b'T')) {
            inconclusive!("BEGIN before the reload failed".to_string());
        }
        a_txn_conn = conns_of_tag(&env.log(), x.tags[0]).first().cloned();
    }
    let mut b_held: Option<(Tag, (usize, u64))> = None;
    if c.straddle_b {
        let t = cb.tag();
        cb.send(&proto::query(&format!("{} SELECT v FROM t /*@ rows=2 hold */", t.render()))).await;
        match env.shared.wait_tag(t, wire::T_REPLY).await {
            Some(ev) => b_held = Some((t, (ev.server, ev.conn))),
            None => inconclusive!("held statement never reached the backend".to_string()),
        }
    }
    // ---- a batch whose Sync will only arrive after the reload
    let mut a_batch: Option<Tag> = None;
    let mut b_batch: Option<Tag> = None;
    if c.open_batch {
        for (cli, slot, busy) in [(&mut ca, &mut a_batch, c.straddle_a), (&mut cb, &mut b_batch, c.straddle_b)] {
            if busy {
                continue;
            }
            let t = cli.tag();
            let mut b = proto::parse("", &format!("{} SELECT v FROM t /*@ rows=2 */", t.render()), &[]);
            b.extend_from_slice(&proto::bind("", "", &[], &[], &[]));
            b.extend_from_slice(&proto::execute("", 0));
            cli.send(&b).await;
            *slot = Some(t);
        }
        // let the pooler read and buffer them
        tokio::time::sleep(Duration::from_millis(20)).await;
        o.label("batch_open_across_reload");
    }
    let show_config0 = strip_volatile(&wire::admin_query(&mut admin, "SHOW CONFIG").await.unwrap_or_default());
    let show_db0 = strip_volatile(&wire::admin_query(&mut admin, "SHOW DATABASES").await.unwrap_or_default());
    let mark = env.shared.len();

    // ---- reload
    let (text, valid) = new_config(&env.mocks, c, env.pg.port);
    env.pg.write_config(&text);
    let defines_change = !matches!(c.change, Change::Identical | Change::GeneralOnly);
    o.nontrivial = (defines_change || !valid) && (c.straddle_a || c.straddle_b || c.open_batch);
    o.label(&format!("change:{}", match &c.change {
        Change::InvalidSyntax(_) => "invalid_syntax".to_string(),
        Change::InvalidSemantic(k, _) => format!("invalid_semantic_{}", k % 9),
        other => format!("{:?}", other),
    }));
    o.label(if c.sighup { "sighup" } else { "reload_command" });
    if c.sighup {
        env.pg.signal(libc::SIGHUP);
        if valid && defines_change && !matches!(c.change, Change::PasswordB | Change::SwapRolesA) {
            // sync point: the admin console reflects the new file
            let deadline = Instant::now() + Duration::from_secs(3);
            loop {
                let now_db = strip_volatile(&wire::admin_query(&mut admin, "SHOW DATABASES").await.unwrap_or_default());
                if now_db != show_db0 {
                    break;
                }
                if Instant::now() > deadline {
                    bail!("valid-reload-not-applied", "3 s after SIGHUP SHOW DATABASES still shows the old pools");
                }
                tokio::time::sleep(Duration::from_millis(20)).await;
            }
            tokio::time::sleep(Duration::from_millis(30)).await;
        } else {
            tokio::time::sleep(Duration::from_millis(250)).await;
        }
    } else {
        let (m, e) = admin.simple("RELOAD", wire::T_REPLY).await;
        if !matches!(e, ReadEnd::Ready(_)) {
            if valid {
                bail!("reload-command-not-answered", format!("RELOAD ended {:?}", e));
            }
            // an invalid file makes the pooler drop the admin session without a reply; that is not what
            // this property is about: log in again and go on
            o.label("admin_session_dropped_on_invalid_reload");
            admin = match env.admin().await {
                Ok(a) => a,
                Err(e) => bail!("admin-cannot-log-in-after-invalid-reload", e),
            };
        }
        let err = m.iter().any(|x| x.code == b'E');
        if valid && err {
            bail!("valid-reload-refused", format!("RELOAD of a valid file answered {:?}", crate::cli::errors(&m)));
        }
        // (an invalid file may be reported as an error or silently ignored; what matters is that nothing changes)
    }
    if !env.pg.alive() {
        bail!("pgcat-died-on-reload", "the process exited during the reload");
    }

    // ---- open work completes on its original connection
    if let Some(conn) = a_txn_conn {
        let x = prog::run_req(&mut ca, &Req::Simple(vec![St::new(Sk::Select).rows(2)]), t0).await;
        let ok = matches!(x.end, ReadEnd::Ready(_)) && prog::check_own_rows(&x).is_ok() && !x.reply.iter().any(|m| m.code == b'E');
        if !ok {
            bail!("open-transaction-broken-by-reload", format!("statement inside the transaction opened before the reload ended {:?} errors {:?}", x.end, crate::cli::errors(&x.reply)));
        }
        let here = conns_of_tag(&env.log(), x.tags[0]);
        if here.iter().any(|h| *h != conn) || here.is_empty() {
            bail!("open-transaction-moved-by-reload", format!("transaction opened on backend {:?} continued on {:?}", conn, here));
        }
        let x = prog::run_req(&mut ca, &Req::Simple(vec![St::new(Sk::Commit)]), t0).await;
        if !matches!(x.end, ReadEnd::Ready(b'I')) || x.reply.iter().any(|m| m.code == b'E') {
            bail!("open-transaction-broken-by-reload", format!("COMMIT after the reload ended {:?} errors {:?}", x.end, crate::cli::errors(&x.reply)));
        }
    }
    if let Some((t, _conn)) = b_held {
        env.shared.release(t);
        let (m, e) = cb.read_until_ready(wire::T_REPLY).await;
        if !matches!(e, ReadEnd::Ready(_)) || crate::cli::row_texts(&m).len() != 2 {
            bail!("in-flight-statement-broken-by-reload", format!("statement held across the reload ended {:?} with {} rows, errors {:?}", e, crate::cli::row_texts(&m).len(), crate::cli::errors(&m)));
        }
    }

    // ---- invalid: nothing changed
    if !valid {
        let cfg1 = strip_volatile(&wire::admin_query(&mut admin, "SHOW CONFIG").await.unwrap_or_default());
        let db1 = strip_volatile(&wire::admin_query(&mut admin, "SHOW DATABASES").await.unwrap_or_default());
        if cfg1 != show_config0 {
            bail!("invalid-reload-changed-config", "SHOW CONFIG differs after reloading an invalid file".to_string());
        }
        if db1 != show_db0 {
            bail!("invalid-reload-changed-pools", format!("SHOW DATABASES differs after reloading an invalid file: {:?} -> {:?}", show_db0, db1));
        }
    }
    // ---- next transactions
    let pa_changed = valid && matches!(c.change, Change::RepointA | Change::AddReplicaA | Change::PoolSizeA | Change::PoolModeA | Change::SwapRolesA);
    let pb_removed = valid && c.change == Change::RemovePoolB;
    let pb_changed = valid && matches!(c.change, Change::PasswordB | Change::RemoveUserB);
    // ---- batches that were open across the reload: their Sync is the start of a transaction after it
    if let Some(t) = a_batch {
        ca.send(&proto::sync()).await;
        let (m, e) = ca.read_until_ready(wire::T_REPLY).await;
        if !matches!(e, ReadEnd::Ready(_)) || m.iter().any(|x| x.code == b'E') {
            bail!("client-of-kept-pool-not-served", format!("pa client's batch (Parse/Bind/Execute before the reload, Sync after it) ended {:?} errors {:?}", e, crate::cli::errors(&m)));
        }
        let at = conns_of_tag(&env.log(), t);
        if pa_changed {
            let allowed: Vec<usize> = match c.change {
                Change::RepointA => vec![A2],
                Change::AddReplicaA => vec![A1, AR],
                Change::SwapRolesA => vec![AR],
                _ => vec![A1],
            };
            if at.is_empty() || at.iter().any(|(s, _)| !allowed.contains(s)) {
                bail!("changed-pool-not-in-effect", format!("after {:?} the pa client's batch whose Sync came after the reload ran on {:?} (allowed backends {:?})", c.change, at.iter().map(|(s, _)| env.mocks[*s].label.clone()).collect::<Vec<_>>(), allowed));
            }
        } else if at.iter().any(|c| !open_before(&env.log(), mark, *c)) {
            bail!("unchanged-pool-lost-its-connections", format!("pa is unchanged by {:?} but its client's batch ran on a new backend connection {:?}", c.change, at));
        }
    }
    if let Some(t) = b_batch {
        cb.send(&proto::sync()).await;
        let (m, e) = cb.read_until_ready(wire::T_REPLY).await;
        let at = conns_of_tag(&env.log(), t);
        if pb_removed {
            if !at.is_empty() {
                bail!("removed-pool-still-served", format!("pb was removed but its client's batch whose Sync came after the reload ran on {:?}", at.iter().map(|(s, _)| env.mocks[*s].label.clone()).collect::<Vec<_>>()));
            }
            if !m.iter().any(|x| x.code == b'E') && matches!(e, ReadEnd::Ready(_)) {
                bail!("removed-pool-no-error", "pb was removed but its client's batch got no error".to_string());
            }
        } else {
            if !matches!(e, ReadEnd::Ready(_)) || m.iter().any(|x| x.code == b'E') {
                bail!("client-of-kept-pool-not-served", format!("pb client's batch (Sync after the reload) ended {:?} errors {:?}", e, crate::cli::errors(&m)));
            }
            if at.is_empty() || at.iter().any(|(s, _)| *s != B1) {
                bail!("misrouted-after-reload", format!("pb client's batch ran on {:?}", at));
            }
        }
    }
    // pa
    if !ca.is_open() {
        ca = match env.client(11, "u", "pa", "pw", &[]).await {
            Ok(c) => c,
            Err(e) => bail!("client-of-kept-pool-not-served", format!("pa login after the reload: {}", e)),
        };
    }
    if !cb.is_open() && !pb_removed {
        cb = match env.client(12, "u", "pb", if c.change == Change::PasswordB { "newpw" } else { "pw" }, &[]).await {
            Ok(c) => c,
            Err(e) => bail!("client-of-kept-pool-not-served", format!("pb login after the reload: {}", e)),
        };
    }
    let x = prog::run_req(&mut ca, &Req::Simple(vec![St::new(Sk::Select)]), t0).await;
    if !matches!(x.end, ReadEnd::Ready(_)) || x.reply.iter().any(|m| m.code == b'E') {
        bail!("client-of-kept-pool-not-served", format!("pa client's transaction after the reload ended {:?} errors {:?}", x.end, crate::cli::errors(&x.reply)));
    }
    let a_after = conns_of_tag(&env.log(), x.tags[0]);
    if pa_changed {
        let allowed: Vec<usize> = match c.change {
            Change::RepointA => vec![A2],
            Change::AddReplicaA => vec![A1, AR],
            Change::SwapRolesA => vec![AR],
            _ => vec![A1],
        };
        if a_after.is_empty() || a_after.iter().any(|(s, _)| !allowed.contains(s)) {
            bail!("changed-pool-not-in-effect", format!("after {:?} the pa client's new transaction ran on {:?} (allowed backends {:?})", c.change, a_after.iter().map(|(s, _)| env.mocks[*s].label.clone()).collect::<Vec<_>>(), allowed));
        }
    } else {
        // unchanged definition: a backend connection that was open before the reload (pool_size is 2: under load the pool may
        // already hold a second idle connection, and which of them bb8 hands out next is not specified), none opened
        if a_after.iter().any(|c| !open_before(&env.log(), mark, *c)) {
            bail!("unchanged-pool-lost-its-connections", format!("pa is unchanged by {:?} but its client moved from backend connection {:?} to {:?}", c.change, a_before, a_after));
        }
    }
    // pb
    if pb_removed {
        let t = cb.tag();
        let (m, e) = cb.simple(&format!("{} SELECT v FROM t", t.render()), wire::T_REPLY).await;
        let seen = conns_of_tag(&env.log(), t);
        if !seen.is_empty() {
            bail!("removed-pool-still-served", format!("pb was removed but its client's new transaction ran on {:?}", seen.iter().map(|(s, _)| env.mocks[*s].label.clone()).collect::<Vec<_>>()));
        }
        if !m.iter().any(|x| x.code == b'E') && matches!(e, ReadEnd::Ready(_)) {
            bail!("removed-pool-no-error", "pb was removed but its client's new transaction got no error".to_string());
        }
        // new logins to the removed pool are refused
        if let Ok(mut n) = Cli::connect(30, &env.addr(), false).await {
            if matches!(n.startup("u", "pb", &[], Password::Md5("u", "pw")).await, AuthOutcome::Ok) {
                bail!("removed-pool-accepts-logins", "a new client was admitted to the removed pool pb".to_string());
            }
        }
    } else {
        let x = prog::run_req(&mut cb, &Req::Simple(vec![St::new(Sk::Select)]), t0).await;
        if !matches!(x.end, ReadEnd::Ready(_)) || x.reply.iter().any(|m| m.code == b'E') {
            bail!("client-of-kept-pool-not-served", format!("pb client's transaction after the reload ended {:?} errors {:?}", x.end, crate::cli::errors(&x.reply)));
        }
        let b_after = conns_of_tag(&env.log(), x.tags[0]);
        if b_after.iter().any(|(s, _)| *s != B1) {
            bail!("misrouted-after-reload", format!("pb client's transaction ran on {:?}", b_after));
        }
        if !pb_changed && b_after.iter().any(|c| !open_before(&env.log(), mark, *c)) {
            bail!("unchanged-pool-lost-its-connections", format!("pb is unchanged by {:?} but its client moved from backend connection {:?} to {:?}", c.change, b_before, b_after));
        }
        if let Some(k) = cu2.as_mut() {
            // the removed user's connected client is turned away, nothing of it reaches a backend, and it cannot log in again
            let t = k.tag();
            let (m, e) = k.simple(&format!("{} SELECT v FROM t", t.render()), wire::T_REPLY).await;
            let seen = conns_of_tag(&env.log(), t);
            if !seen.is_empty() {
                bail!("removed-pool-still-served", format!("user u2 was removed from pb but its client's new transaction ran on {:?}", seen.iter().map(|(s, _)| env.mocks[*s].label.clone()).collect::<Vec<_>>()));
            }
            if !m.iter().any(|x| x.code == b'E') && matches!(e, ReadEnd::Ready(_)) {
                bail!("removed-pool-no-error", "user u2 was removed from pb but its client's new transaction got no error".to_string());
            }
            if let Ok(mut n) = Cli::connect(33, &env.addr(), false).await {
                if matches!(n.startup("u2", "pb", &[], Password::Md5("u2", "pw2")).await, AuthOutcome::Ok) {
                    bail!("removed-pool-accepts-logins", "a new client was admitted as the removed user u2 of pb".to_string());
                }
            }
        }
        if c.change == Change::PasswordB {
            // the new password is in effect for new logins
            if let Ok(mut n) = Cli::connect(31, &env.addr(), false).await {
                if !matches!(n.startup("u", "pb", &[], Password::Md5("u", "newpw")).await, AuthOutcome::Ok) {
                    bail!("changed-pool-not-in-effect", "the new password of pb is not accepted after the reload".to_string());
                }
            }
            if let Ok(mut n) = Cli::connect(32, &env.addr(), false).await {
                if matches!(n.startup("u", "pb", &[], Password::Md5("u", "pw")).await, AuthOutcome::Ok) {
                    bail!("changed-pool-not-in-effect", "the old password of pb is still accepted after the reload".to_string());
                }
            }
        }
    }
    // pc
    let pc_expected = valid && c.change == Change::AddPoolC;
    match Cli::connect(40, &env.addr(), false).await {
        Ok(mut n) => {
            let r = n.startup("u", "pc", &[], Password::Md5("u", "pw")).await;
            if pc_expected {
                if !matches!(r, AuthOutcome::Ok) {
                    bail!("added-pool-not-in-effect", format!("login to the added pool pc: {:?}", r));
                }
                let x = prog::run_req(&mut n, &Req::Simple(vec![St::new(Sk::Select)]), t0).await;
                let at = conns_of_tag(&env.log(), x.tags[0]);
                if at.is_empty() || at.iter().any(|(s, _)| *s != C1) {
                    bail!("added-pool-not-in-effect", format!("statement on the added pool pc ran on {:?}", at));
                }
            } else if matches!(r, AuthOutcome::Ok) {
                bail!(if valid { "unconfigured-pool-accepts-logins" } else { "invalid-reload-added-pool" }, "a client was admitted to pool pc which is not part of the effective configuration".to_string());
            }
        }
        Err(_) => {}
    }
    // ---- backend sessions opened/closed by the reload itself
    let log = env.log();
    if !valid || !defines_change {
        let churn: Vec<String> = log[mark.min(log.len())..]
            .iter()
            .filter_map(|e| match &e.kind {
                EvKind::Open { .. } => Some(format!("open {}#{}", env.mocks[e.server].label, e.conn)),
                EvKind::Close { .. } => Some(format!("close {}#{}", env.mocks[e.server].label, e.conn)),
                _ => None,
            })
            .collect();
        if !churn.is_empty() {
            bail!(if valid { "unchanged-pool-lost-its-connections" } else { "invalid-reload-touched-connections" }, format!("backend sessions opened/closed although no pool definition changed: {:?}", churn));
        }
    } else {
        // valid change: pools that did not change must not see new sessions
        let untouched: Vec<usize> = match c.change {
            Change::RemovePoolB | Change::PasswordB | Change::RemoveUserB => vec![A1],
            Change::AddPoolC => vec![A1, B1],
            _ => vec![B1],
        };
        for e in &log[mark.min(log.len())..] {
            if matches!(e.kind, EvKind::Open { .. }) && untouched.contains(&e.server) {
                bail!("unchanged-pool-lost-its-connections", format!("a new backend session was opened on {} although its pool did not change", env.mocks[e.server].label));
            }
        }
    }
    env.finish().await;
    o
}
