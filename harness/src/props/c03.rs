//! C03 — queries and replies are relayed complete, in order and unmodified.

use crate::cli::{Cli, ReadEnd};
use crate::engine::{Outcome, Part, PartReport, Tier, WorkerCtx};
use crate::mock::{EvKind, Event};
use crate::pgc::{self, PgcatConfig, ServerDef};
use crate::proto;
use crate::wire::{self, BackendSpec, Env};
use proptest::prelude::*;
use serde::{Deserialize, Serialize};
use std::collections::HashMap;
use std::time::Duration;

pub fn check(tier: Tier, seed: u64, replay: (Option<&str>, Option<&str>)) -> Vec<PartReport> {
    crate::run_parts!(tier, seed, replay, [WirePart])
}

#[derive(Clone, Debug, Serialize, Deserialize, PartialEq)]
pub struct Rep {
    pub kind: u8,
    pub rows: u16,
    pub rowlen: Vec<u32>,
    pub notice_at: Vec<u16>,
    pub pstatus_at: Option<u16>,
    pub err_at: Option<u16>,
    #[serde(default)]
    pub notice_len: u32,
}

#[derive(Clone, Debug, Serialize, Deserialize, PartialEq)]
pub enum Rq {
    /// simple query; each statement has its own reply shape
    Q(Vec<Rep>),
    /// empty query string
    EmptyQ,
    /// a Sync on its own (pgcat may answer it itself; only the client-visible reply is asserted)
    LoneSync,
    /// extended batch: per statement Parse, Bind, optional Describe, Execute(max_rows) [, Execute(0)] ; Sync
    B(Vec<(Rep, bool, i32)>),
    /// COPY TO STDOUT producing n CopyData of the given length
    CopyOut { n: u16, len: u32, notice_at: Vec<u16> },
    /// COPY FROM STDIN (optionally preceded by a SELECT in the same simple query)
    CopyIn { pre_select_rows: Option<u16>, chunks: Vec<u32>, fail: bool },
}

#[derive(Clone, Debug, Serialize, Deserialize)]
pub struct Group {
    /// requests written back-to-back before any read (pipelining when > 1)
    pub rqs: Vec<Rq>,
    /// client-side write split offsets (mapped monotonically into the byte string)
    pub cuts: Vec<u16>,
    /// server-side TCP write sizes for the replies of this group
    pub chunks: Vec<u16>,
}

#[derive(Clone, Debug, Serialize, Deserialize)]
pub struct Case {
    pub tls: bool,
    pub workers: u8,
    pub groups: Vec<Group>,
}

pub struct WirePart;

fn rowlen_strategy() -> BoxedStrategy<(u16, Vec<u32>)> {
    prop_oneof![
        4 => (0u16..40, prop::collection::vec(0u32..200, 0..3)),
        2 => (0u16..2000, prop::collection::vec(prop_oneof![Just(0u32), Just(1u32), Just(100u32)], 1..3)),
        3 => (1u16..30, prop::collection::vec(prop_oneof![8150u32..8250, Just(8191u32), Just(8196u32), Just(16384u32), Just(100_000u32), 0u32..64], 1..4)),
        1 => (40u16..120, prop::collection::vec(prop_oneof![60u32..90, 4000u32..4200], 1..3)),
    ]
    .boxed()
}

fn rep_strategy() -> BoxedStrategy<Rep> {
    (
        0u8..4,
        rowlen_strategy(),
        prop::collection::vec(0u16..50, 0..3),
        prop::option::weighted(0.2, 0u16..50),
        prop::option::weighted(0.15, 0u16..50),
        prop_oneof![4 => Just(0u32), 1 => 50u32..200, 2 => 8100u32..8300, 1 => Just(20_000u32)],
    )
        .prop_map(|(kind, (rows, rowlen), notice_at, pstatus_at, err_at, notice_len)| {
            let cap = |x: u16| if rows == 0 { 0 } else { x % (rows + 1) };
            Rep {
                kind,
                rows,
                rowlen,
                notice_at: notice_at.into_iter().map(cap).collect(),
                pstatus_at: pstatus_at.map(cap),
                err_at: err_at.map(cap),
                notice_len,
            }
        })
        .boxed()
}

fn rq_strategy() -> BoxedStrategy<Rq> {
    prop_oneof![
        5 => prop::collection::vec(rep_strategy(), 1..4).prop_map(Rq::Q),
        1 => Just(Rq::EmptyQ),
        1 => Just(Rq::LoneSync),
        4 => prop::collection::vec((rep_strategy(), any::<bool>(), prop_oneof![Just(0i32), Just(0i32), 1i32..6]), 1..3).prop_map(Rq::B),
        2 => (0u16..200, prop_oneof![0u32..100, 8000u32..8400, Just(30_000u32)], prop::collection::vec(0u16..200, 0..2))
            .prop_map(|(n, len, notice_at)| Rq::CopyOut { n, len, notice_at: notice_at.into_iter().map(|x| if n == 0 { 0 } else { x % (n + 1) }).collect() }),
        2 => (
            prop::option::weighted(0.2, 0u16..5),
            prop::collection::vec(prop_oneof![0u32..100, 8000u32..8400, Just(20_000u32)], 0..6),
            prop::bool::weighted(0.25)
        )
            .prop_map(|(pre_select_rows, chunks, fail)| Rq::CopyIn { pre_select_rows, chunks, fail }),
    ]
    .boxed()
}

pub fn case_strategy() -> BoxedStrategy<Case> {
    let group = (
        prop::collection::vec(rq_strategy(), 1..4),
        prop::collection::vec(any::<u16>(), 0..5),
        prop_oneof![2 => Just(vec![]), 2 => prop::collection::vec(prop_oneof![1u16..10, 100u16..9000], 1..5)],
    )
        .prop_map(|(rqs, cuts, chunks)| {
            // COPY IN needs the CopyInResponse before data can follow: it always ends its group
            let mut out = vec![];
            for r in rqs {
                let stop = matches!(r, Rq::CopyIn { .. });
                out.push(r);
                if stop {
                    break;
                }
            }
            Group { rqs: out, cuts, chunks }
        });
    (prop::bool::weighted(0.25), prop_oneof![Just(1u8), Just(2u8), Just(4u8)], prop::collection::vec(group, 1..5))
        .prop_map(|(tls, workers, groups)| Case { tls, workers, groups })
        .boxed()
}

impl Part for WirePart {
    type Case = Case;
    fn prop(&self) -> &'static str {
        "C03"
    }
    fn name(&self) -> &'static str {
        "wire"
    }
    fn wire(&self) -> bool {
        true
    }
    fn rule(&self) -> String {
        "one client (plain or TLS) sends 1..4 groups of 1..3 requests (simple 1..3 statements, empty query, extended batches with Describe/portal suspension, COPY OUT, COPY IN/FAIL optionally after a SELECT in the same query), each group written back-to-back (pipelining) with generated write splits (inside headers too); reply shapes from directives: 0..2000 rows, row sizes around the 8196-byte flush threshold, 16 KiB, 100 kB, NoticeResponse/ParameterStatus/ErrorResponse at generated positions, server write chunking. Oracle: bytes received by the mock (minus pgcat's own closed set) == bytes sent by the client; bytes received by the client == bytes the mock emitted, in order. Non-trivial = a reply larger than 8196 bytes, a header split, a Notice/ParameterStatus/Error mid-stream, COPY, or pipelining".into()
    }
    fn cases(&self, tier: Tier) -> u64 {
        tier.pick(2_000, 24_000)
    }
    fn strategy(&self, _tier: Tier) -> BoxedStrategy<Case> {
        case_strategy()
    }
    fn run(&self, c: &Case, ctx: &mut WorkerCtx) -> Outcome {
        wire::run_async(run_case(c, ctx))
    }
}

fn directive(r: &Rep, chunks: &[u16]) -> String {
    let mut d = format!(" rows={}", r.rows);
    if !r.rowlen.is_empty() {
        d.push_str(&format!(" rowlen={}", r.rowlen.iter().map(|x| x.to_string()).collect::<Vec<_>>().join(",")));
    }
    if !r.notice_at.is_empty() {
        d.push_str(&format!(" notice={}", r.notice_at.iter().map(|x| x.to_string()).collect::<Vec<_>>().join(",")));
        if r.notice_len > 0 {
            d.push_str(&format!(" noticelen={}", r.notice_len));
        }
    }
    if let Some(p) = r.pstatus_at {
        d.push_str(&format!(" pstatus={}:IntervalStyle:iso_8601", p));
    }
    if let Some(e) = r.err_at {
        d.push_str(&format!(" err={}:22012", e));
    }
    if !chunks.is_empty() {
        d.push_str(&format!(" chunks={}", chunks.iter().map(|x| x.to_string()).collect::<Vec<_>>().join(",")));
    }
    d
}

fn stmt_sql(cli: &mut Cli, r: &Rep, chunks: &[u16], extra: &str) -> String {
    let t = cli.tag();
    let body = match r.kind {
        0 => "SELECT v FROM t",
        1 => "SELECT v FROM t WHERE x = 'semi;colon' AND y = $$dollar;quoted$$",
        2 => "INSERT INTO t (v) VALUES (1) RETURNING v",
        _ => "UPDATE t SET v = 2",
    };
    format!("{} {} /*@{}{} */", t.render(), body, directive(r, chunks), extra)
}

/// Bytes of one request and how many ReadyForQuery messages terminate its reply.
fn render(cli: &mut Cli, rq: &Rq, chunks: &[u16]) -> Vec<u8> {
    match rq {
        Rq::Q(reps) => {
            let parts: Vec<String> = reps.iter().map(|r| stmt_sql(cli, r, chunks, "")).collect();
            proto::query(&parts.join("; "))
        }
        Rq::EmptyQ => proto::query(""),
        Rq::LoneSync => proto::sync(),
        Rq::B(items) => {
            let mut out = vec![];
            for (i, (r, desc, max)) in items.iter().enumerate() {
                let extra = if *max > 0 { " suspend" } else { "" };
                let sql = stmt_sql(cli, r, chunks, extra);
                let portal = if i % 2 == 1 { format!("p{}", i) } else { String::new() };
                out.extend_from_slice(&proto::parse("", &sql, &[]));
                out.extend_from_slice(&proto::bind(&portal, "", &[], &[], &[]));
                if *desc {
                    out.extend_from_slice(&proto::describe(b'P', &portal));
                }
                out.extend_from_slice(&proto::execute(&portal, *max));
                if *max > 0 {
                    out.extend_from_slice(&proto::execute(&portal, 0));
                }
            }
            out.extend_from_slice(&proto::sync());
            out
        }
        Rq::CopyOut { n, len, notice_at } => {
            let t = cli.tag();
            let mut d = format!(" copyout={}:{}", n, len);
            if !notice_at.is_empty() {
                d.push_str(&format!(" notice={}", notice_at.iter().map(|x| x.to_string()).collect::<Vec<_>>().join(",")));
            }
            if !chunks.is_empty() {
                d.push_str(&format!(" chunks={}", chunks.iter().map(|x| x.to_string()).collect::<Vec<_>>().join(",")));
            }
            proto::query(&format!("{} COPY t TO STDOUT /*@{} */", t.render(), d))
        }
        Rq::CopyIn { pre_select_rows, .. } => {
            let t = cli.tag();
            let copy = format!("{} COPY t FROM STDIN", t.render());
            match pre_select_rows {
                Some(n) => {
                    let t2 = cli.tag();
                    proto::query(&format!("{} SELECT v FROM t /*@ rows={} */; {}", t2.render(), n, copy))
                }
                None => proto::query(&copy),
            }
        }
    }
}

fn config(mocks: &[crate::mock::MockServer], c: &Case) -> PgcatConfig {
    let mut cfg = PgcatConfig::new();
    cfg.set_general("worker_threads", &c.workers.to_string());
    if c.tls {
        cfg.set_general("tls_certificate", "\"/repo/.circleci/server.cert\"");
        cfg.set_general("tls_private_key", "\"/repo/.circleci/server.key\"");
    }
    let servers = vec![ServerDef { host: mocks[0].ip.clone(), port: mocks[0].port, role: "primary".into() }];
    cfg.pools.push(pgc::simple_pool("db", "u", "pw", 1, servers));
    cfg
}

async fn run_case(c: &Case, ctx: &mut WorkerCtx) -> Outcome {
    let mut o = Outcome::pass();
    let specs = vec![BackendSpec::trust("127.0.0.1", "p0")];
    let env = match Env::start(ctx, &specs, |m| config(m, c)).await {
        Ok(e) => e,
        Err(e) => {
            o.inconclusive = Some(e);
            return o;
        }
    };
    let mut cli = match env.client_tls(1, "u", "db", "pw", &[], c.tls).await {
        Ok(c) => c,
        Err(e) => {
            o.inconclusive = Some(format!("login: {}", e));
            env.finish().await;
            return o;
        }
    };
    let rx_start = cli.rx_all.len() - cli.pending_bytes().len();
    let mut sent_all: Vec<u8> = vec![];
    let mut stall: Option<String> = None;
    let mut header_split = false;
    let mut pipelined = false;
    let mut copy = false;
    let mut lone_sync_sent = 0usize;
    let mut lone_sync_bad: Option<String> = None;
    let mut lone_ranges: Vec<(usize, usize)> = vec![];
    'groups: for g in &c.groups {
        let mut bytes = vec![];
        let mut n_ready = 0usize;
        let mut copy_in: Option<(Vec<u32>, bool, crate::sqllex::Tag)> = None;
        let mut kinds: Vec<bool> = vec![];
        for rq in &g.rqs {
            let b = render(&mut cli, rq, &g.chunks);
            if matches!(rq, Rq::LoneSync) {
                lone_sync_sent += 1;
            } else {
                sent_all.extend_from_slice(&b);
            }
            bytes.extend_from_slice(&b);
            match rq {
                Rq::LoneSync => {
                    kinds.push(true);
                    n_ready += 1;
                    continue;
                }
                _ => {}
            }
            kinds.push(false);
            match rq {
                Rq::CopyIn { chunks, fail, pre_select_rows } => {
                    copy = true;
                    let t = crate::sqllex::Tag { client: 1, stmt: cli.next_stmt - if pre_select_rows.is_some() { 1 } else { 0 } };
                    copy_in = Some((chunks.clone(), *fail, t));
                }
                Rq::CopyOut { .. } => {
                    copy = true;
                    n_ready += 1
                }
                _ => n_ready += 1,
            }
        }
        if g.rqs.len() > 1 {
            pipelined = true;
        }
        let cuts: Vec<usize> = g.cuts.iter().map(|c| crate::engine::pick(*c, bytes.len())).collect();
        // a cut strictly inside some 5-byte header?
        {
            let mut off = 0usize;
            let mut rest = &bytes[..];
            while rest.len() >= 5 {
                let l = i32::from_be_bytes([rest[1], rest[2], rest[3], rest[4]]) as usize + 1;
                if cuts.iter().any(|c| *c > off && *c < off + 5) {
                    header_split = true;
                }
                off += l;
                if l > rest.len() {
                    break;
                }
                rest = &rest[l..];
            }
        }
        if !cli.send_split(&bytes, &cuts).await {
            stall = Some("client write failed".into());
            break;
        }
        for i in 0..n_ready {
            let before = cli.rx_all.len() - cli.pending_bytes().len();
            let (m, e) = cli.read_until_ready(wire::T_REPLY).await;
            if !matches!(e, ReadEnd::Ready(_)) {
                stall = Some(format!("reply to a pipelined/simple request ended {:?}", e));
                break 'groups;
            }
            if kinds.get(i).cloned().unwrap_or(false) {
                // a lone Sync must be answered by exactly one ReadyForQuery
                let after = cli.rx_all.len() - cli.pending_bytes().len();
                if m.len() != 1 || m[0].code != b'Z' {
                    lone_sync_bad = Some(format!("a lone Sync was answered with {:?}", m.iter().map(|x| x.code as char).collect::<String>()));
                }
                lone_ranges.push((before, after));
            }
        }
        if let Some((chunks, fail, tag)) = copy_in {
            let (_m, e) = cli.read_until_code(&[b'G', b'Z'], wire::T_REPLY).await;
            match e {
                ReadEnd::Code(b'G') => {
                    let mut data = vec![];
                    for (i, len) in chunks.iter().enumerate() {
                        let mut row = format!("{}:chunk{}", tag.short(), i).into_bytes();
                        row.resize((*len as usize).max(row.len()), b'k');
                        row.push(b'\n');
                        data.extend_from_slice(&proto::copy_data(&row));
                    }
                    if fail {
                        data.extend_from_slice(&proto::copy_fail("client abort"));
                    } else {
                        data.extend_from_slice(&proto::copy_done());
                    }
                    sent_all.extend_from_slice(&data);
                    let cuts2: Vec<usize> = g.cuts.iter().map(|c| crate::engine::pick(*c, data.len())).collect();
                    if !cli.send_split(&data, &cuts2).await {
                        stall = Some("client write failed during COPY".into());
                        break;
                    }
                    let (_m, e) = cli.read_until_ready(wire::T_REPLY).await;
                    if !matches!(e, ReadEnd::Ready(_)) {
                        stall = Some(format!("COPY IN completion ended {:?}", e));
                        break;
                    }
                }
                ReadEnd::Code(b'Z') => {}
                other => {
                    stall = Some(format!("no CopyInResponse: {:?}", other));
                    break;
                }
            }
        }
    }
    // settle: nothing more may arrive
    let (extra, _e) = cli.read_until_closed(Duration::from_millis(30)).await;
    let log = env.log();
    let stderr = env.pg.stderr_tail(800);
    env.finish().await;

    if c.tls {
        o.label("tls");
    }
    if header_split {
        o.label("header_split");
    }
    if pipelined {
        o.label("pipelined");
    }
    if copy {
        o.label("copy");
    }
    // ---- oracle a: what the server received
    let mut own_rx: HashMap<u64, bool> = HashMap::new();
    let mut srv_rx: Vec<u8> = vec![];
    let mut srv_tx: Vec<u8> = vec![];
    let mut big = false;
    let mut midstream = false;
    for e in &log {
        match &e.kind {
            EvKind::Rx { raw, own, code, snap, .. } => {
                // a Sync outside any batch = a forwarded lone Sync (forwarding it or not is don't-care)
                let lone = *code == b'S' && !snap.batch_open;
                own_rx.insert(e.seq, *own || lone);
                if !*own && !lone {
                    srv_rx.extend_from_slice(raw);
                }
            }
            EvKind::Tx { bytes, for_seq } => {
                if !own_rx.get(for_seq).cloned().unwrap_or(false) {
                    srv_tx.extend_from_slice(bytes);
                    if bytes.len() > 8196 {
                        big = true;
                    }
                }
            }
            _ => {}
        }
    }
    if big {
        o.label("reply_over_8196");
    }
    for g in &c.groups {
        for r in &g.rqs {
            match r {
                Rq::Q(v) => midstream |= v.iter().any(|x| !x.notice_at.is_empty() || x.pstatus_at.is_some() || x.err_at.is_some()),
                Rq::B(v) => midstream |= v.iter().any(|(x, _, _)| !x.notice_at.is_empty() || x.pstatus_at.is_some() || x.err_at.is_some()),
                Rq::CopyOut { notice_at, .. } => midstream |= !notice_at.is_empty(),
                Rq::LoneSync => {}
                _ => {}
            }
        }
    }
    if midstream {
        o.label("notice_pstatus_error_midstream");
    }
    o.nontrivial = big || header_split || midstream || copy || pipelined;
    o.sub_evaluations = c.groups.iter().map(|g| g.rqs.len() as u64).sum();

    let mut cli_rx_v: Vec<u8> = vec![];
    {
        let mut pos = rx_start;
        for (a, b) in &lone_ranges {
            if *a >= pos {
                cli_rx_v.extend_from_slice(&cli.rx_all[pos..*a]);
                pos = *b;
            }
        }
        cli_rx_v.extend_from_slice(&cli.rx_all[pos..]);
    }
    let cli_rx = &cli_rx_v[..];
    let _ = extra;
    if lone_sync_sent > 0 {
        o.label("lone_sync");
    }
    if let Some(b) = lone_sync_bad {
        o.fail("lone-sync-reply", b);
        return o;
    }
    // the server must have received a prefix-exact copy of what the client sent (exact when no stall)
    let n = srv_rx.len().min(sent_all.len());
    if srv_rx[..n] != sent_all[..n] {
        let at = first_diff(&srv_rx, &sent_all);
        o.fail(
            "server-received-bytes-differ",
            format!("byte {} of the stream to the server differs from what the client sent (client sent {} bytes, server got {}); context sent={:?} got={:?}", at, sent_all.len(), srv_rx.len(), ctx_bytes(&sent_all, at), ctx_bytes(&srv_rx, at)),
        );
        return o;
    }
    if srv_rx.len() > sent_all.len() {
        o.fail("server-received-extra-bytes", format!("server received {} bytes beyond the client's {}: {:?}", srv_rx.len() - sent_all.len(), sent_all.len(), ctx_bytes(&srv_rx, sent_all.len())));
        return o;
    }
    let m = cli_rx.len().min(srv_tx.len());
    if cli_rx[..m] != srv_tx[..m] {
        let at = first_diff(cli_rx, &srv_tx);
        o.fail(
            "client-received-bytes-differ",
            format!("byte {} of the reply stream differs (server emitted {} bytes, client got {}); emitted={:?} got={:?}", at, srv_tx.len(), cli_rx.len(), ctx_bytes(&srv_tx, at), ctx_bytes(cli_rx, at)),
        );
        return o;
    }
    if cli_rx.len() > srv_tx.len() {
        o.fail("client-received-extra-bytes", format!("client received {} bytes the server never emitted: {:?}", cli_rx.len() - srv_tx.len(), ctx_bytes(cli_rx, srv_tx.len())));
        return o;
    }
    if let Some(s) = stall {
        // the streams agree as far as they go but a reply never completed: delivery is part of C03
        if srv_rx.len() < sent_all.len() || cli_rx.len() < srv_tx.len() {
            o.fail(
                "relay-incomplete",
                format!(
                    "{}; client sent {} bytes, server received {}; server emitted {} bytes, client received {}; pgcat stderr: {}",
                    s,
                    sent_all.len(),
                    srv_rx.len(),
                    srv_tx.len(),
                    cli_rx.len(),
                    stderr
                ),
            );
        } else {
            o.inconclusive = Some(format!("{} although both byte streams are complete", s));
        }
        return o;
    }
    if srv_rx.len() != sent_all.len() || cli_rx.len() != srv_tx.len() {
        o.fail(
            "relay-incomplete",
            format!("client sent {} bytes, server received {}; server emitted {}, client received {}", sent_all.len(), srv_rx.len(), srv_tx.len(), cli_rx.len()),
        );
    }
    o
}

fn first_diff(a: &[u8], b: &[u8]) -> usize {
    a.iter().zip(b.iter()).position(|(x, y)| x != y).unwrap_or(a.len().min(b.len()))
}

fn ctx_bytes(b: &[u8], at: usize) -> String {
    let s = at.saturating_sub(12);
    let e = (at + 24).min(b.len());
    String::from_utf8_lossy(&b[s..e]).to_string()
}
