//! C05 — writes and transactions go to the primary; explicit role choices are honoured.

use crate::engine::{Outcome, Part, PartReport, Tier, WorkerCtx};
use crate::proto;
use bytes::BytesMut;
#[cfg(feature = "lib")]
use pgcat::config::Role;
#[cfg(feature = "lib")]
use pgcat::pool::PoolSettings;
#[cfg(feature = "lib")]
use pgcat::query_router::QueryRouter;
use proptest::prelude::*;
use serde::{Deserialize, Serialize};

pub fn check(tier: Tier, seed: u64, replay: (Option<&str>, Option<&str>)) -> Vec<PartReport> {
    #[cfg(feature = "lib")]
    {
        crate::run_parts!(tier, seed, replay, [LibPart, super::c05w::WirePart])
    }
    #[cfg(not(feature = "lib"))]
    {
        let mut v = vec![crate::engine::lib_unavailable("C05", "lib")];
        v.extend(crate::run_parts!(tier, seed, replay, [super::c05w::WirePart]));
        v
    }
}

#[derive(Clone, Copy, Debug, Serialize, Deserialize, PartialEq, Eq, Hash)]
pub enum Class {
    Read,
    LockingRead,
    SelectInto,
    DmlCte,
    Dml,
    Merge,
    Ddl,
    Utility,
    TxnStart,
}

impl Class {
    pub fn name(&self) -> &'static str {
        match self {
            Class::Read => "read",
            Class::LockingRead => "locking_read",
            Class::SelectInto => "select_into",
            Class::DmlCte => "dml_cte",
            Class::Dml => "dml",
            Class::Merge => "merge",
            Class::Ddl => "ddl",
            Class::Utility => "utility",
            Class::TxnStart => "txn_start",
        }
    }
}

#[derive(Clone, Debug, Serialize, Deserialize)]
pub struct Stmt {
    pub class: Class,
    pub sql: String,
}

/// Plain reads: SELECT / VALUES / set operations / CTEs over reads / sub-selects (bounded depth).
pub fn read_strategy() -> BoxedStrategy<String> {
    let leaf = prop_oneof![
        Just("SELECT 1".to_string()),
        Just("SELECT a, b FROM t1 WHERE a = 5".to_string()),
        Just("SELECT count(*) FROM t2 GROUP BY b HAVING count(*) > 1".to_string()),
        Just("VALUES (1, 'a'), (2, 'b')".to_string()),
        Just("SELECT now(), lower('X'), coalesce(NULL, 2)".to_string()),
        Just("SELECT * FROM t1 JOIN t2 ON t1.id = t2.id LEFT JOIN t3 USING (id)".to_string()),
        Just("SELECT DISTINCT ON (a) a, b FROM t1 ORDER BY a, b DESC LIMIT 10 OFFSET 2".to_string()),
        Just("SELECT a FROM t1 WHERE b IN (1, 2, 3) AND c BETWEEN 1 AND 2 OR d IS NULL".to_string()),
        Just("SELECT CASE WHEN a > 1 THEN 'x' ELSE 'y' END FROM public.t1 AS q".to_string()),
        Just("SELECT a::text, CAST(b AS int), rank() OVER (PARTITION BY c ORDER BY d) FROM t1".to_string()),
        Just("SELECT 'insert into t values (1)', \"update\" FROM t1 WHERE note = 'for update'".to_string()),
        Just("SELECT * FROM generate_series(1, 10) AS g(i)".to_string()),
        Just("SELECT nextval('seq') FROM t1 WHERE x LIKE 'begin%'".to_string()),
    ];
    leaf.prop_recursive(3, 24, 3, |inner| {
        prop_oneof![
            (inner.clone(), inner.clone(), prop_oneof![Just("UNION ALL"), Just("UNION"), Just("INTERSECT"), Just("EXCEPT")])
                .prop_map(|(a, b, op)| format!("({}) {} ({})", a, op, b)),
            inner.clone().prop_map(|a| format!("SELECT * FROM ({}) AS sub WHERE 1 = 1", a)),
            inner.clone().prop_map(|a| format!("WITH c AS ({}) SELECT * FROM c", a)),
            (inner.clone(), inner.clone()).prop_map(|(a, b)| format!("WITH c1 AS ({}), c2 AS ({}) SELECT * FROM c1, c2", a, b)),
            inner.clone().prop_map(|a| format!("SELECT x FROM t1 WHERE EXISTS ({}) ORDER BY x", a)),
            inner.clone().prop_map(|a| format!("SELECT x, (SELECT max(y) FROM t2) FROM t1 WHERE x IN ({})", a)),
            inner.clone().prop_map(|a| format!("({})", a)),
            inner.prop_map(|a| format!("SELECT * FROM t1 JOIN LATERAL ({}) l ON true", a)),
        ]
    })
    .boxed()
}

pub fn stmt_strategy() -> BoxedStrategy<Stmt> {
    let read = read_strategy().prop_map(|sql| Stmt { class: Class::Read, sql });
    let locking = (read_strategy_simple(), prop_oneof![Just("FOR UPDATE"), Just("FOR SHARE"), Just("FOR NO KEY UPDATE"), Just("FOR KEY SHARE"), Just("FOR UPDATE OF t1 NOWAIT"), Just("FOR UPDATE SKIP LOCKED")])
        .prop_map(|(s, l)| Stmt { class: Class::LockingRead, sql: format!("{} {}", s, l) });
    // the same locking clauses where PostgreSQL also accepts them: on a parenthesised select, after ORDER BY/LIMIT
    // and inside a sub-select or a CTE, where it locks rows all the same (and fails on a hot standby)
    let locking_top = (prop_oneof![Just("FOR UPDATE"), Just("FOR SHARE"), Just("FOR NO KEY UPDATE")], 0u8..7).prop_map(|(l, shape)| Stmt {
        class: Class::LockingRead,
        sql: match shape {
            0 => format!("(SELECT * FROM t1 WHERE id = 1 {})", l),
            1 => format!("(SELECT * FROM t1 WHERE id = 1) {}", l),
            2 => format!("SELECT * FROM t1 ORDER BY a LIMIT 1 {}", l),
            3 => format!("SELECT * FROM (SELECT * FROM t1 WHERE id = 1 {}) AS s", l),
            4 => format!("WITH c AS (SELECT * FROM t1 WHERE id = 1 {}) SELECT * FROM c", l),
            5 => format!("SELECT a FROM t2 WHERE b IN (SELECT id FROM t1 WHERE id < 5 {})", l),
            _ => format!("((SELECT * FROM t1 WHERE id = 1 {}))", l),
        },
    });
    let locking = prop_oneof![3 => locking, 1 => locking_top];
    let into = prop_oneof![
        Just("SELECT a, b INTO newt FROM t1 WHERE a > 1"),
        Just("SELECT * INTO TEMP tmp_t FROM t1"),
        Just("SELECT a INTO TEMPORARY TABLE tmp_t FROM t1 JOIN t2 ON t1.id = t2.id"),
        Just("SELECT count(*) AS n INTO UNLOGGED stats_t FROM t2"),
        Just("SELECT a INTO newt FROM t1 UNION ALL SELECT a FROM t2"),
        Just("WITH c AS (SELECT 1 AS a) SELECT a INTO newt FROM c"),
        Just("SELECT a INTO newt FROM t1 ORDER BY a LIMIT 5"),
    ]
    .prop_map(|s| Stmt { class: Class::SelectInto, sql: s.to_string() });
    let dml_cte = (
        prop_oneof![
            Just("INSERT INTO t1 (a) VALUES (1) RETURNING *"),
            Just("UPDATE t1 SET a = a + 1 WHERE b = 2 RETURNING a"),
            Just("INSERT INTO audit SELECT * FROM t1 RETURNING id"),
        ],
        prop_oneof![Just("SELECT * FROM w"), Just("SELECT count(*) FROM w JOIN t2 ON w.a = t2.a"), Just("SELECT 1")],
        0u8..10,
    )
        .prop_map(|(d, s, shape)| Stmt {
            class: Class::DmlCte,
            // the data-modifying CTE is always at the top level (PostgreSQL's rule); what varies is the body it is attached to
            sql: match shape {
                0 | 1 => format!("WITH w AS ({}) {}", d, s),
                2 => format!("WITH r AS (SELECT 1), w AS ({}) {}", d, s),
                3 => format!("WITH w AS ({}), r AS (SELECT 1) {}", d, s),
                4 => format!("WITH w AS ({}) {} UNION ALL SELECT 2", d, s),
                5 => format!("WITH w AS ({}) SELECT 2 EXCEPT {}", d, s),
                6 => format!("WITH w AS ({}) ({})", d, s),
                7 => format!("WITH w AS ({}) VALUES (1), (2)", d),
                8 => format!("WITH w AS ({}) ({} ORDER BY 1 LIMIT 1)", d, s),
                _ => format!("WITH w AS ({}) {} ORDER BY 1 LIMIT 3 OFFSET 1", d, s),
            },
        });
    let dml = prop_oneof![
        Just("INSERT INTO t1 (a, b) VALUES (1, 'x')"),
        Just("INSERT INTO t1 SELECT * FROM t2 ON CONFLICT (id) DO NOTHING"),
        Just("INSERT INTO t1 (a) VALUES (1) ON CONFLICT (a) DO UPDATE SET a = excluded.a RETURNING id"),
        Just("UPDATE t1 SET a = 1, b = b || 'x' WHERE id = 5"),
        Just("UPDATE t1 SET a = t2.a FROM t2 WHERE t1.id = t2.id RETURNING t1.*"),
        Just("DELETE FROM t1 WHERE id = 3"),
        Just("DELETE FROM t1 USING t2 WHERE t1.id = t2.id RETURNING *"),
        Just("WITH r AS (SELECT 1 AS a) INSERT INTO t1 SELECT a FROM r"),
        Just("WITH r AS (SELECT 1 AS a) UPDATE t1 SET a = r.a FROM r"),
    ]
    .prop_map(|s| Stmt { class: Class::Dml, sql: s.to_string() });
    let merge = Just(Stmt {
        class: Class::Merge,
        sql: "MERGE INTO t1 USING t2 ON t1.id = t2.id WHEN MATCHED THEN UPDATE SET a = t2.a WHEN NOT MATCHED THEN INSERT (id, a) VALUES (t2.id, t2.a)".to_string(),
    });
    let ddl = prop_oneof![
        Just("CREATE TABLE n1 (id bigint PRIMARY KEY, v text)"),
        Just("CREATE TEMP TABLE n2 AS SELECT * FROM t1"),
        Just("CREATE INDEX i1 ON t1 (a)"),
        Just("CREATE VIEW v1 AS SELECT * FROM t1"),
        Just("ALTER TABLE t1 ADD COLUMN z int"),
        Just("DROP TABLE IF EXISTS t9"),
        Just("TRUNCATE t1"),
        Just("GRANT SELECT ON t1 TO bob"),
        Just("CREATE SCHEMA s1"),
    ]
    .prop_map(|s| Stmt { class: Class::Ddl, sql: s.to_string() });
    let utility = prop_oneof![
        Just("SET statement_timeout = 100"),
        Just("SET search_path TO public"),
        Just("SHOW server_version"),
        Just("EXPLAIN SELECT * FROM t1"),
        Just("EXPLAIN ANALYZE INSERT INTO t1 VALUES (1)"),
        Just("COPY t1 TO STDOUT"),
        Just("COPY t1 FROM STDIN"),
        Just("PREPARE p1 AS SELECT 1"),
        Just("EXECUTE p1"),
        Just("DEALLOCATE p1"),
        Just("DECLARE c1 CURSOR FOR SELECT * FROM t1"),
        Just("FETCH 10 FROM c1"),
        Just("LISTEN ch"),
        Just("NOTIFY ch, 'x'"),
        Just("CALL do_work(1)"),
        Just("DISCARD ALL"),
        Just("COMMIT"),
        Just("ROLLBACK"),
        Just("SAVEPOINT s1"),
        Just("ANALYZE t1"),
        Just("LOCK TABLE t1 IN EXCLUSIVE MODE"),
    ]
    .prop_map(|s| Stmt { class: Class::Utility, sql: s.to_string() });
    let txn = prop_oneof![
        Just("BEGIN"),
        Just("START TRANSACTION"),
        Just("BEGIN ISOLATION LEVEL SERIALIZABLE"),
        Just("BEGIN TRANSACTION READ ONLY"),
        Just("START TRANSACTION ISOLATION LEVEL REPEATABLE READ, READ WRITE"),
        Just("BEGIN WORK"),
    ]
    .prop_map(|s| Stmt { class: Class::TxnStart, sql: s.to_string() });
    let base = prop_oneof![8 => read, 2 => locking, 2 => into, 3 => dml_cte, 3 => dml, 1 => merge, 2 => ddl, 3 => utility, 2 => txn];
    // spelling noise: case folding, comments, whitespace
    (base, 0u8..6)
        .prop_map(|(st, noise)| {
            let sql = match noise {
                0 => st.sql.to_lowercase(),
                1 => format!("/* leading comment */ {}", st.sql),
                2 => format!("{} -- trailing comment\n", st.sql),
                3 => format!("  \n\t{}  ", st.sql),
                _ => st.sql.clone(),
            };
            Stmt { class: st.class, sql }
        })
        .boxed()
}

fn read_strategy_simple() -> BoxedStrategy<String> {
    prop_oneof![
        Just("SELECT * FROM t1 WHERE id = 1".to_string()),
        Just("SELECT a FROM t1 JOIN t2 ON t1.id = t2.id WHERE t2.x > 0 ORDER BY a LIMIT 1".to_string()),
        Just("WITH c AS (SELECT 1) SELECT * FROM t1, c".to_string()),
        Just("SELECT * FROM (SELECT * FROM t1) s".to_string()),
    ]
    .boxed()
}

#[derive(Clone, Debug, Serialize, Deserialize)]
pub enum Step {
    /// a client message made of 1..3 statements; parse = sent as Parse (extended) instead of Query
    Msg { stmts: Vec<Stmt>, parse: bool },
    SetRole(String),
    SetPrimaryReads(String),
}

#[derive(Clone, Debug, Serialize, Deserialize)]
pub struct LibCase {
    pub default_role: u8,
    pub primary_reads: bool,
    pub steps: Vec<Step>,
}

pub fn step_strategy() -> BoxedStrategy<Step> {
    prop_oneof![
        10 => (prop::collection::vec(stmt_strategy(), 1..4), prop::bool::weighted(0.3)).prop_map(|(stmts, parse)| {
            // a Parse message carries exactly one statement
            let stmts = if parse { vec![stmts[0].clone()] } else { stmts };
            Step::Msg { stmts, parse }
        }),
        2 => prop_oneof![Just("primary"), Just("replica"), Just("any"), Just("auto"), Just("default")].prop_map(|s| Step::SetRole(s.to_string())),
        1 => prop_oneof![Just("on"), Just("off"), Just("default")].prop_map(|s| Step::SetPrimaryReads(s.to_string())),
    ]
    .boxed()
}

#[cfg(feature = "lib")]
pub struct LibPart;

#[cfg(feature = "lib")]
pub fn settings(default_role: u8, primary_reads: bool) -> PoolSettings {
    PoolSettings {
        query_parser_enabled: true,
        query_parser_read_write_splitting: true,
        primary_reads_enabled: primary_reads,
        default_role: match default_role % 3 {
            0 => None,
            1 => Some(Role::Replica),
            _ => Some(Role::Primary),
        },
        shards: 1,
        ..Default::default()
    }
}

/// Reference model of the session overrides (Appendix A.3).
#[derive(Clone, Debug)]
pub struct Model {
    /// Some(Some(role)) = pinned role ; Some(None) = 'any' ; None = inferred
    pub pinned: Option<Option<&'static str>>,
    pub primary_reads_override: Option<bool>,
    pub pool_primary_reads: bool,
}

impl Model {
    pub fn new(pool_primary_reads: bool) -> Model {
        Model { pinned: None, primary_reads_override: None, pool_primary_reads }
    }
    pub fn set_role(&mut self, v: &str) {
        self.pinned = match v {
            "primary" => Some(Some("primary")),
            "replica" => Some(Some("replica")),
            "any" => Some(None),
            _ => None, // auto / default: inferred per message
        };
    }
    pub fn set_primary_reads(&mut self, v: &str) {
        self.primary_reads_override = match v {
            "on" => Some(true),
            "off" => Some(false),
            _ => None,
        };
    }
    pub fn primary_reads(&self) -> bool {
        self.primary_reads_override.unwrap_or(self.pool_primary_reads)
    }
    /// What role() must be after a parser-accepted message with these classes:
    /// Some("primary"|"replica"|"any")
    pub fn expect(&self, classes: &[Class]) -> &'static str {
        if let Some(p) = self.pinned {
            return p.unwrap_or("any");
        }
        if classes.iter().any(|c| *c != Class::Read) {
            "primary"
        } else if self.primary_reads() {
            "any"
        } else {
            "replica"
        }
    }
}

#[cfg(feature = "lib")]
pub fn role_name(r: Option<Role>) -> &'static str {
    match r {
        Some(Role::Primary) => "primary",
        Some(Role::Replica) => "replica",
        Some(Role::Mirror) => "mirror",
        None => "any",
    }
}

#[cfg(feature = "lib")]
impl Part for LibPart {
    type Case = LibCase;
    fn prop(&self) -> &'static str {
        "C05"
    }
    fn name(&self) -> &'static str {
        "lib"
    }
    fn wire(&self) -> bool {
        false
    }
    fn rule(&self) -> String {
        "sessions of 1..8 steps over {client message of 1..3 statements from a class-labelled PostgreSQL grammar (plain reads of depth <= 3: joins, set operations, CTEs, sub-selects, LATERAL; locking reads; SELECT INTO; data-modifying CTEs; DML incl. WITH..INSERT/UPDATE; MERGE; DDL; utility; transaction start) as Query or Parse, SET SERVER ROLE, SET PRIMARY READS} × default_role × primary_reads_enabled; the real QueryRouter is driven as client.rs drives it; oracle: for every parser-accepted message role() equals the label model (non-read => primary; reads => replica/any; pinned role until changed). Non-trivial = message containing a non-read class other than plain DML, or a message after a role override".into()
    }
    fn cases(&self, tier: Tier) -> u64 {
        tier.pick(240_000, 6_000_000)
    }
    fn strategy(&self, _tier: Tier) -> BoxedStrategy<LibCase> {
        (0u8..3, any::<bool>(), prop::collection::vec(step_strategy(), 1..9))
            .prop_map(|(default_role, primary_reads, steps)| LibCase { default_role, primary_reads, steps })
            .boxed()
    }
    fn run(&self, c: &LibCase, _ctx: &mut WorkerCtx) -> Outcome {
        let mut o = Outcome::pass();
        let mut qr = QueryRouter::new();
        qr.update_pool_settings(&settings(c.default_role, c.primary_reads));
        qr.set_default_role();
        let mut model = Model::new(c.primary_reads);
        let mut overridden = false;
        for st in &c.steps {
            match st {
                Step::SetRole(v) => {
                    let m = BytesMut::from(&proto::query(&format!("SET SERVER ROLE TO '{}'", v))[..]);
                    let r = std::panic::catch_unwind(std::panic::AssertUnwindSafe(|| qr.try_execute_command(&m)));
                    match r {
                        Ok(Some(_)) => {}
                        _ => {
                            o.fail("set-server-role-not-handled", format!("SET SERVER ROLE TO '{}' was not handled", v));
                            return o;
                        }
                    }
                    model.set_role(v);
                    overridden = true;
                }
                Step::SetPrimaryReads(v) => {
                    let m = BytesMut::from(&proto::query(&format!("SET PRIMARY READS TO {}", v))[..]);
                    let r = std::panic::catch_unwind(std::panic::AssertUnwindSafe(|| qr.try_execute_command(&m)));
                    if !matches!(r, Ok(Some(_))) {
                        o.fail("set-primary-reads-not-handled", format!("SET PRIMARY READS TO {} was not handled", v));
                        return o;
                    }
                    model.set_primary_reads(v);
                }
                Step::Msg { stmts, parse } => {
                    o.sub_evaluations += 1;
                    let sql = stmts.iter().map(|s| s.sql.clone()).collect::<Vec<_>>().join("; ");
                    let msg = if *parse { proto::parse("", &sql, &[]) } else { proto::query(&sql) };
                    let m = BytesMut::from(&msg[..]);
                    let classes: Vec<Class> = stmts.iter().map(|s| s.class).collect();
                    // exactly what Client::handle does with a first message
                    let res = std::panic::catch_unwind(std::panic::AssertUnwindSafe(|| {
                        if qr.try_execute_command(&m).is_some() {
                            return Err("handled as custom command");
                        }
                        if qr.query_parser_enabled() {
                            match qr.parse(&m) {
                                Ok(ast) => {
                                    let _ = qr.infer(&ast);
                                    Ok(true)
                                }
                                Err(_) => Ok(false),
                            }
                        } else {
                            // parser switched off by a pinned role: nothing is inferred
                            Ok(true)
                        }
                    }));
                    let accepted = match res {
                        Err(_) => {
                            o.fail("router-panic", format!("router panicked on {:?}", sql));
                            return o;
                        }
                        Ok(Err(e)) => {
                            o.fail("statement-taken-for-command", format!("{}: {:?}", e, sql));
                            return o;
                        }
                        Ok(Ok(a)) => a,
                    };
                    for cl in &classes {
                        o.label(cl.name());
                    }
                    if !accepted {
                        o.label("parser_rejected");
                        continue;
                    }
                    if classes.iter().any(|c| !matches!(c, Class::Read | Class::Dml)) || overridden {
                        o.nontrivial = true;
                    }
                    let want = model.expect(&classes);
                    let got = role_name(qr.role());
                    if want != got {
                        let culprit = classes.iter().find(|c| **c != Class::Read).map(|c| c.name()).unwrap_or("read");
                        let sig = if model.pinned.is_some() {
                            format!("pinned-role-not-honoured:{}", want)
                        } else {
                            format!("wrong-role:{}->{}:{}", want, got, culprit)
                        };
                        o.fail(&sig, format!("message {:?} (classes {:?}, parse={}) : router role {} but model requires {} (model {:?})", sql, classes, parse, got, want, model));
                        return o;
                    }
                }
            }
        }
        o
    }
}
