//! C11 — malformed or hostile client bytes hurt only the sender.

use crate::cli::{AuthOutcome, Cli, Password, ReadEnd};
use crate::engine::{Outcome, Part, PartReport, Tier, WorkerCtx};
use crate::pgc::{self, PgcatConfig, ServerDef};
use crate::prog::{self, Req, Sk, St};
use crate::proto;
use crate::wire::{self, BackendSpec, Env};
use proptest::prelude::*;
use serde::{Deserialize, Serialize};
use std::time::{Duration, Instant};

pub fn check(tier: Tier, seed: u64, replay: (Option<&str>, Option<&str>)) -> Vec<PartReport> {
    if let (Some(path), Some("")) = replay {
        // not a JSON scenario: a libFuzzer artifact
        return vec![super::c11f::replay_artifact(path)];
    }
    let mut v = vec![];
    if replay.0.is_none() {
        v.push(super::c11f::fuzz_stage(tier, seed));
    }
    v.extend(crate::run_parts!(tier, seed, replay, [WirePart]));
    v
}

#[derive(Clone, Debug, Serialize, Deserialize, PartialEq)]
pub enum Phase {
    /// first bytes on a fresh connection
    Startup,
    /// after the MD5 challenge
    Password,
    /// authenticated, idle
    Idle,
    /// authenticated, inside BEGIN
    InTxn,
    /// authenticated, COPY FROM STDIN open
    InCopy,
    /// authenticated, Parse/Bind buffered without Sync
    MidBatch,
    /// authenticated admin session
    Admin,
}

#[derive(Clone, Debug, Serialize, Deserialize)]
pub enum Payload {
    /// typed frame with an explicit length field and body
    Frame { code: u8, len: i32, body: Vec<u8> },
    /// start-up style packet: length + code + bytes
    StartupPacket { len: i32, code: i32, body: Vec<u8> },
    Raw(Vec<u8>),
    /// start-up packet with a correct length and protocol code around an arbitrary parameter block
    StartupBody(Vec<u8>),
    /// a message on which one of pgcat's decoders panics, found by the fuzz stage (committed snapshot in /verif/fuzz/panics)
    Killer(Vec<u8>),
    /// a well-formed message of this kind in a place where it does not belong
    Misplaced(u8),
    /// malformed body for a known message type
    BadBody(u8, u8),
    /// n Sync messages back to back
    SyncStorm(u8),
    /// a well-formed request (not waiting for its reply): 0 SELECT, 1 BEGIN, 2 COMMIT, 3 Parse/Bind/Execute/Sync of a named
    /// statement, 4 COPY t FROM STDIN, 5 lone Parse, 6 Bind/Execute/Sync of that name, 7 SET + SELECT, 8/9 a statement (simple / extended) the server rejects with an error message quoting non-UTF-8 bytes
    Valid(u8, u16),
    /// syntactically extreme SQL in a Query (or Parse + Sync) message
    Sql { shape: u8, n: u32, ext: bool },
}

#[derive(Clone, Debug, Serialize, Deserialize)]
pub struct Case {
    /// 0 = no query parser, 1 = query_parser_enabled with read/write splitting, 2 = also automatic sharding key and the table_access / query_logger plugins
    #[serde(default)]
    pub parser: u8,
    pub cache: bool,
    /// 1 or 2 server connections in the pool
    #[serde(default = "one")]
    pub pool_size: u8,
    /// address-space limit of the pooler process in MiB (0 = none)
    #[serde(default)]
    pub mem_mb: u32,
    pub workers: u8,
    pub phase: Phase,
    pub payloads: Vec<Payload>,
    /// number of parallel attacker connections sending the same thing
    pub conns: u8,
    /// close after the payloads (true) or linger 60 ms first
    pub linger: bool,
}

fn one() -> u8 {
    1
}

/// The statement text the canary prepares (untagged, so that an attacker can send the very same text).
pub const CANARY_SQL: &str = "SELECT v FROM t WHERE id = $1";

pub struct WirePart;

fn bytes_strategy(max: usize) -> BoxedStrategy<Vec<u8>> {
    prop_oneof![
        3 => prop::collection::vec(any::<u8>(), 0..max),
        2 => prop::collection::vec(prop_oneof![Just(0u8), Just(b'a'), Just(0xffu8), Just(b'\''), Just(1u8)], 0..max),
        1 => "[ -~]{0,40}".prop_map(|s| s.into_bytes()),
        1 => "[ -~]{0,20}".prop_map(|s| { let mut b = s.into_bytes(); b.push(0); b }),
    ]
    .boxed()
}

fn len_strategy() -> BoxedStrategy<i32> {
    prop_oneof![
        4 => -5i32..12,
        3 => 4i32..200,
        1 => Just(i32::MIN),
        1 => Just(-1i32),
        1 => Just(1 << 20),
        1 => Just(1 << 26),
        1 => prop_oneof![3 => Just(1i32 << 28), 1 => Just(i32::MAX), 1 => Just(i32::MAX - 7)],
        1 => Just(8196i32),
    ]
    .boxed()
}

fn payload_strategy() -> BoxedStrategy<Payload> {
    let codes = prop_oneof![
        6 => prop_oneof![Just(b'Q'), Just(b'P'), Just(b'B'), Just(b'D'), Just(b'E'), Just(b'C'), Just(b'S'), Just(b'H'), Just(b'd'), Just(b'c'), Just(b'f'), Just(b'p'), Just(b'X'), Just(b'F')],
        2 => any::<u8>(),
    ];
    let base = prop_oneof![
        5 => (codes.clone(), len_strategy(), bytes_strategy(48)).prop_map(|(code, len, body)| Payload::Frame { code, len, body }),
        3 => (len_strategy(), prop_oneof![Just(196608i32), Just(80877103i32), Just(80877102i32), any::<i32>(), Just(0i32)], bytes_strategy(64)).prop_map(|(len, code, body)| Payload::StartupPacket { len, code, body }),
        2 => bytes_strategy(200).prop_map(Payload::Raw),
        2 => prop_oneof![
            bytes_strategy(60),
            Just(b"user\0u\0database\0db\0\0".to_vec()),
            Just(b"user\0u\0database\0db".to_vec()),
            Just(b"user\0u\0database\0".to_vec()),
            Just(b"user\0u\0database".to_vec()),
            Just(b"user".to_vec()),
            Just(b"\0\0\0".to_vec()),
            "[a-z]{1,8}".prop_map(|k| format!("user\0u\0database\0db\0{}\0v", k).into_bytes()),
        ]
        .prop_map(Payload::StartupBody),
        3 => prop_oneof![Just(b'B'), Just(b'E'), Just(b'D'), Just(b'd'), Just(b'c'), Just(b'f'), Just(b'S'), Just(b'C'), Just(b'H'), Just(b'p')].prop_map(Payload::Misplaced),
        4 => (prop_oneof![Just(b'P'), Just(b'B'), Just(b'D'), Just(b'C'), Just(b'Q'), Just(b'E')], 0u8..8).prop_map(|(c, k)| Payload::BadBody(c, k)),
        1 => (1u8..40).prop_map(Payload::SyncStorm),
        4 => (0u8..10, 900u16..999).prop_map(|(k, n)| Payload::Valid(k, n)),
        3 => (0u8..14, prop_oneof![Just(10u32), Just(60), Just(300), Just(3000), Just(30_000), Just(200_000)], any::<bool>()).prop_map(|(shape, n, ext)| Payload::Sql { shape, n, ext }),
    ]
    .boxed();
    let killers = load_killers();
    if killers.is_empty() {
        return base;
    }
    let n = killers.len();
    prop_oneof![
        9 => base,
        1 => (0..n).prop_map(move |i| Payload::Killer(killers[i].clone())),
    ]
    .boxed()
}

/// Decoder-killing messages exported by the fuzz stage: typed messages as they are, start-up parameter blocks wrapped into a
/// start-up packet.
fn load_killers() -> Vec<Vec<u8>> {
    let mut out = vec![];
    for class in ["bind", "close", "describe", "parse", "startup", "startup-mismatch", "frame", "frame-mismatch"] {
        let dir = format!("/verif/fuzz/panics/{}", class);
        let mut files: Vec<_> = std::fs::read_dir(&dir).map(|r| r.filter_map(|e| e.ok()).map(|e| e.path()).collect()).unwrap_or_default();
        files.sort();
        for f in files {
            if let Ok(b) = std::fs::read(&f) {
                if class.starts_with("startup") {
                    let mut v = ((b.len() + 8) as i32).to_be_bytes().to_vec();
                    v.extend_from_slice(&196608i32.to_be_bytes());
                    v.extend_from_slice(&b);
                    out.push(v);
                } else {
                    out.push(b);
                }
            }
        }
    }
    out
}

impl Part for WirePart {
    type Case = Case;
    fn prop(&self) -> &'static str {
        "C11"
    }
    fn name(&self) -> &'static str {
        "wire"
    }
    fn wire(&self) -> bool {
        true
    }
    fn rule(&self) -> String {
        "an attacker (1..5 parallel connections) brings itself into a protocol state {fresh connection, after the password challenge, authenticated idle, inside a transaction, inside COPY FROM STDIN, with an unsynced batch, admin session} and sends 1..5 payloads from a structure-aware generator (typed frames whose length field is negative / 0..4 / inconsistent / up to 2^28, or 2^29 when the pooler runs under a 2 GiB address-space limit (a quarter of the cases), start-up packets with bad lengths, codes and unterminated parameters, raw bytes, well-formed messages out of place, known message types with malformed bodies, messages on which a pgcat decoder panics (exported by the fuzz stage), Sync storms, extreme SQL texts, and well-formed requests in between), then lingers or closes; a canary client shares the pool (pool_size 1 or 2) and runs tagged transactions before, during (whenever the attacker cannot legitimately hold every server connection: unauthenticated or admin attacker, or pool_size 2 with one attacker) and after; statement cache on/off, worker_threads 1/2. Oracle: pgcat stays alive; every canary transaction is answered with exactly its own rows, and its Parse/Bind/Describe/Execute/Sync of a fixed statement text (which attacker payloads reuse) is answered 1 2 T D C Z; the backend session is clean whenever it passes from the attacker to the canary (C02's predicate); a new client can log in afterwards and pool_size clients can be inside a transaction simultaneously. Non-trivial = attacker bytes sent while it held the shared connection, or more attacker connections than worker threads".into()
    }
    fn cases(&self, tier: Tier) -> u64 {
        tier.pick(2000, 40_000)
    }
    fn strategy(&self, _tier: Tier) -> BoxedStrategy<Case> {
        let phase = prop_oneof![3 => Just(Phase::Startup), 1 => Just(Phase::Password), 3 => Just(Phase::Idle), 3 => Just(Phase::InTxn), 2 => Just(Phase::InCopy), 2 => Just(Phase::MidBatch), 1 => Just(Phase::Admin)];
        (0u8..3, (any::<bool>(), 1u8..3), prop_oneof![3 => Just(0u32), 1 => Just(2048u32)], prop_oneof![Just(1u8), Just(2u8)], phase, prop::collection::vec(payload_strategy(), 1..6), prop_oneof![4 => Just(1u8), 1 => 2u8..6], any::<bool>())
            .prop_map(|(parser, (cache, pool_size), mem_mb, workers, phase, payloads, conns, linger)| {
                // parallel attackers that hold the single server or a half-sent batch would only queue behind each other
                let conns = if matches!(phase, Phase::Startup | Phase::Password | Phase::Idle | Phase::Admin) { conns } else { 1 };
                Case { parser, cache, pool_size, mem_mb, workers, phase, payloads, conns, linger }
            })
            .boxed()
    }
    fn run(&self, c: &Case, ctx: &mut WorkerCtx) -> Outcome {
        wire::run_async(run_case(c, ctx))
    }
}

/// `cap` bounds announced lengths: 2^28 without a memory limit (so that 16 parallel cases cannot exhaust the machine), 2^29 under the
/// 2 GiB address-space limit.
pub fn render(p: &Payload, cap: i32) -> Vec<u8> {
    match p {
        Payload::Frame { code, len, body } => {
            let len = &(*len).min(cap);
            let mut v = vec![*code];
            v.extend_from_slice(&len.to_be_bytes());
            v.extend_from_slice(body);
            v
        }
        Payload::StartupPacket { len, code, body } => {
            let len = (*len).min(cap);
            let mut v = len.to_be_bytes().to_vec();
            v.extend_from_slice(&code.to_be_bytes());
            v.extend_from_slice(body);
            v
        }
        Payload::Raw(b) | Payload::Killer(b) => b.clone(),
        Payload::StartupBody(b) => {
            let mut v = ((b.len() + 8) as i32).to_be_bytes().to_vec();
            v.extend_from_slice(&196608i32.to_be_bytes());
            v.extend_from_slice(b);
            v
        }
        Payload::Misplaced(code) => match code {
            b'B' => proto::bind("", "never_parsed", &[], &[], &[]),
            b'E' => proto::execute("no_portal", 0),
            b'D' => proto::describe(b'S', "never_parsed"),
            b'd' => proto::copy_data(b"stray copy data\n"),
            b'c' => proto::copy_done(),
            b'f' => proto::copy_fail("stray"),
            b'S' => proto::sync(),
            b'C' => proto::close(b'S', "never_parsed"),
            b'H' => proto::flush(),
            _ => proto::password_message(b"md5deadbeef\0"),
        },
        Payload::BadBody(code, k) => {
            let body: Vec<u8> = match (code, k % 8) {
                (_, 0) => vec![],
                (_, 1) => vec![0],
                (b'P', 2) => format!("name\0{}", CANARY_SQL).into_bytes(),
                (b'P', 3) => {
                    let mut b = format!("n\0{}\0", CANARY_SQL).into_bytes();
                    b.extend_from_slice(&(-1i16).to_be_bytes());
                    b
                }
                (b'P', 4) => {
                    let mut b = format!("n\0{}\0", CANARY_SQL).into_bytes();
                    b.extend_from_slice(&(30000i16).to_be_bytes());
                    b
                }
                (b'B', 2) => b"portal\0stmt".to_vec(),
                (b'B', 3) => {
                    let mut b = b"\0\0".to_vec();
                    b.extend_from_slice(&(5i16).to_be_bytes());
                    b
                }
                (b'B', 4) => {
                    let mut b = b"\0\0".to_vec();
                    b.extend_from_slice(&(0i16).to_be_bytes());
                    b.extend_from_slice(&(1i16).to_be_bytes());
                    b.extend_from_slice(&(1000i32).to_be_bytes());
                    b.extend_from_slice(b"xy");
                    b
                }
                (b'B', 5) => {
                    // one parameter announcing far more bytes than the message holds
                    let mut b = b"\0\0".to_vec();
                    b.extend_from_slice(&(0i16).to_be_bytes());
                    b.extend_from_slice(&(1i16).to_be_bytes());
                    b.extend_from_slice(&cap.to_be_bytes());
                    b.extend_from_slice(b"xy");
                    b
                }
                (b'D', 2) | (b'C', 2) => b"S".to_vec(),
                (b'D', 3) | (b'C', 3) => b"Sunterminated".to_vec(),
                (b'Q', 2) => b"select 1".to_vec(),
                (b'Q', 3) => b"SET SHARDING KEY TO '1".to_vec(),
                (b'E', 2) => b"portal".to_vec(),
                (_, _) => vec![0xff, 0xfe, 0, 0xfd],
            };
            proto::frame(*code, &body)
        }
        Payload::Valid(k, n) => {
            let tag = crate::sqllex::Tag { client: 10, stmt: *n as u32 }.render();
            match k % 10 {
                0 => proto::query(&format!("{} SELECT v FROM t", tag)),
                1 => proto::query(&format!("{} BEGIN", tag)),
                2 => proto::query(&format!("{} COMMIT", tag)),
                3 => {
                    let _ = &tag;
                    let mut v = proto::parse("att2", CANARY_SQL, &[]);
                    v.extend_from_slice(&proto::bind("", "att2", &[], &[Some(b"1".to_vec())], &[]));
                    v.extend_from_slice(&proto::execute("", 0));
                    v.extend_from_slice(&proto::sync());
                    v
                }
                4 => proto::query(&format!("{} COPY t FROM STDIN", tag)),
                5 => proto::parse("att2", CANARY_SQL, &[23]),
                6 => {
                    let mut v = proto::bind("", "att2", &[], &[Some(b"1".to_vec())], &[]);
                    v.extend_from_slice(&proto::execute("", 0));
                    v.extend_from_slice(&proto::sync());
                    v
                }
                7 => proto::query(&format!("{} SET work_mem TO '9'; SELECT v FROM t", tag)),
                // a statement the server rejects with a message that quotes bytes which are not UTF-8 (what PostgreSQL does with
                // an unknown identifier under client_encoding LATIN1 / SQL_ASCII)
                8 => proto::query(&format!("{} SELECT v FROM t /*@ err=0:42703 errraw=636166e9ff80 */", tag)),
                _ => {
                    let mut v = proto::parse("", &format!("{} SELECT v FROM t /*@ err=0:42703 errraw=e92fc328 */", tag), &[]);
                    v.extend_from_slice(&proto::bind("", "", &[], &[], &[]));
                    v.extend_from_slice(&proto::execute("", 0));
                    v.extend_from_slice(&proto::sync());
                    v
                }
            }
        }
        Payload::Sql { shape, n, ext } => {
            let sql = sql_bomb(*shape, *n as usize);
            if *ext {
                let mut v = proto::parse("", &sql, &[]);
                v.extend_from_slice(&proto::sync());
                v
            } else {
                proto::query(&sql)
            }
        }
        Payload::SyncStorm(n) => {
            let mut v = vec![];
            for _ in 0..*n {
                v.extend_from_slice(&proto::sync());
            }
            v
        }
    }
}

/// Which kind of SQL text (if any) the pooler's query parser was handed in this case: the most specific class wins.
fn sql_culprit(c: &Case) -> &'static str {
    if c.parser == 0 {
        return "query-parser-off";
    }
    let mut chain = false;
    let mut nested = false;
    let mut flat = false;
    for p in &c.payloads {
        if let Payload::Sql { shape, n, .. } = p {
            match shape {
                0 | 3 | 11 | 12 if *n >= 1000 => chain = true,
                1 | 2 | 5 | 9 | 10 if *n >= 1000 => nested = true,
                _ => flat = true,
            }
        }
    }
    if chain {
        "query-parser:left-deep-operator-chain"
    } else if nested {
        "query-parser:nested-sql"
    } else if flat {
        "query-parser:flat-sql"
    } else {
        "query-parser:no-sql-payload"
    }
}

/// SQL whose size or nesting is controlled by n.
pub fn sql_bomb(shape: u8, n: usize) -> String {
    let rep = |unit: &str, k: usize| unit.repeat(k);
    match shape {
        0 => format!("SELECT 1{}", rep("+1", n)),
        1 => format!("SELECT {}1{}", rep("(", n), rep(")", n)),
        2 => format!("SELECT * FROM {}t{}", rep("(SELECT * FROM ", n), rep(") s", n)),
        3 => format!("SELECT 1{}", rep(" UNION SELECT 1", n.min(30_000))),
        4 => format!("SELECT * FROM t WHERE id IN (1{})", rep(",1", n)),
        5 => format!("SELECT {}true", rep("NOT ", n)),
        6 => format!("SELECT '{}' FROM \"{}\"", rep("x", n), rep("y", n)),
        7 => rep("SELECT 1;", n.min(2000)),
        8 => format!("SELECT {}'unterminated /* $tag$ \"", rep("$a$", n.min(3000))),
        9 => format!("SELECT {}1{}", rep("CASE WHEN true THEN ", n), rep(" END", n)),
        10 => format!("SELECT {}1{}", rep("abs(", n), rep(")", n)),
        11 => format!("SELECT 1{}", rep("::int", n)),
        12 => format!("UPDATE t SET v = 1 WHERE a = 1{}", rep(" AND a = 1", n)),
        _ => format!("INSERT INTO t (id, v) VALUES (1, 1){}", rep(", (1, 1)", n.min(30_000))),
    }
}

fn config(mocks: &[crate::mock::MockServer], c: &Case) -> PgcatConfig {
    let mut cfg = PgcatConfig::new();
    cfg.set_general("worker_threads", &c.workers.to_string());
    cfg.set_general("connect_timeout", "3000");
    let servers = vec![ServerDef { host: mocks[0].ip.clone(), port: mocks[0].port, role: "primary".into() }];
    let mut pool = pgc::simple_pool("db", "u", "pw", c.pool_size.max(1) as u32, servers);
    if c.cache {
        pool.set("prepared_statements_cache_size", "8");
    }
    if c.parser >= 1 {
        pool.set("query_parser_enabled", "true");
        pool.set("query_parser_read_write_splitting", "true");
        pool.set("primary_reads_enabled", "true");
    }
    if c.parser >= 2 {
        pool.set("automatic_sharding_key", "\"t.id\"");
        pool.raw_tail = "[pools.db.plugins]\n\n[pools.db.plugins.table_access]\nenabled = true\ntables = [\"secrets\"]\n\n[pools.db.plugins.query_logger]\nenabled = true\n".to_string();
    }
    cfg.pools.push(pool);
    cfg
}

async fn canary_txn(canary: &mut Cli, t0: Instant, what: &str) -> Result<(), (String, String)> {
    for rq in [Req::Simple(vec![St::new(Sk::Begin)]), Req::Simple(vec![St::new(Sk::Select).rows(2)]), Req::Simple(vec![St::new(Sk::Commit)])] {
        let x = prog::run_req(canary, &rq, t0).await;
        if !matches!(x.end, ReadEnd::Ready(_)) {
            return Err(("canary-not-answered".into(), format!("canary transaction {}: request {:?} ended {:?} (errors {:?})", what, x.tags, x.end, crate::cli::errors(&x.reply))));
        }
        if let Err(e) = prog::check_own_rows(&x) {
            return Err(("canary-got-foreign-result".into(), format!("canary transaction {}: {}", what, e)));
        }
        if x.reply.iter().any(|m| m.code == b'E') {
            return Err(("canary-got-error".into(), format!("canary transaction {}: {:?}", what, crate::cli::errors(&x.reply))));
        }
    }
    Ok(())
}

async fn run_case(c: &Case, ctx: &mut WorkerCtx) -> Outcome {
    let mut o = Outcome::pass();
    let penv: Vec<(&str, String)> = if c.mem_mb > 0 { vec![("PGVERIF_RLIMIT_AS_MB", c.mem_mb.to_string())] } else { vec![] };
    let env = match Env::start_with_env(ctx, &[BackendSpec::trust("127.0.0.1", "p0")], &penv, |m| config(m, c)).await {
        Ok(e) => e,
        Err(e) => {
            o.inconclusive = Some(e);
            return o;
        }
    };
    let t0 = Instant::now();
    let mut canary = match env.client(1, "u", "db", "pw", &[]).await {
        Ok(c) => c,
        Err(e) => {
            o.inconclusive = Some(e);
            env.finish().await;
            return o;
        }
    };
    let mut env = env;
    macro_rules! bail {
        ($sig:expr, $d:expr) => {{
            // a dead pooler explains every other symptom: report that, with the reason it gave
            let died = env.pg.wait_exit(Duration::from_millis(300)).await.is_some();
            let sig = if died {
                let err = env.pg.stderr_text();
                let reason = if err.contains("has overflowed its stack") {
                    "stack-overflow"
                } else if err.contains("memory allocation of") {
                    "allocation-failure"
                } else {
                    "other"
                };
                if reason == "stack-overflow" {
                    format!("pooler-terminated:{}:{}", reason, sql_culprit(c))
                } else {
                    format!("pooler-terminated:{}:phase={:?}", reason, c.phase)
                }
            } else {
                format!("{}:phase={:?}", $sig, c.phase)
            };
            o.fail(&sig, format!("{}; case {:?}; pgcat died={}; stderr: {}", $d, c, died, env.pg.stderr_tail(400)));
            env.finish().await;
            return o;
        }};
    }
    if let Err((s, d)) = canary_txn(&mut canary, t0, "before the attack").await {
        o.inconclusive = Some(format!("{}: {}", s, d));
        env.finish().await;
        return o;
    }
    // ---- attackers get into their phase
    let mut attackers: Vec<Cli> = vec![];
    for k in 0..c.conns.max(1) {
        let id = 10 + k as u32;
        let r: Result<Cli, String> = async {
            match c.phase {
                Phase::Startup => Cli::connect(id, &env.addr(), false).await.map_err(|e| e.to_string()),
                Phase::Password => {
                    let mut a = Cli::connect(id, &env.addr(), false).await.map_err(|e| e.to_string())?;
                    a.send(&proto::startup_packet(&[("user", "u"), ("database", "db")])).await;
                    let m = a.read_msg(Duration::from_secs(3)).await.map_err(|e| format!("{:?}", e))?;
                    if m.code != b'R' {
                        return Err("no challenge".into());
                    }
                    Ok(a)
                }
                Phase::Admin => env.client(id, pgc::ADMIN_USER, "pgcat", pgc::ADMIN_PASS, &[]).await,
                _ => {
                    let mut a = env.client(id, "u", "db", "pw", &[]).await?;
                    match c.phase {
                        Phase::InTxn => {
                            let x = prog::run_req(&mut a, &Req::Simple(vec![St::new(Sk::Begin)]), t0).await;
                            if !matches!(x.end, ReadEnd::Ready(b'T')) {
                                return Err("attacker BEGIN failed".into());
                            }
                            let _ = prog::run_req(&mut a, &Req::Simple(vec![St::new(Sk::Set("work_mem".into(), "7".into()))]), t0).await;
                        }
                        Phase::InCopy => {
                            let t = a.tag();
                            a.send(&proto::query(&format!("{} COPY t FROM STDIN", t.render()))).await;
                            let (_m, e) = a.read_until_code(&[b'G', b'Z'], wire::T_REPLY).await;
                            if e != ReadEnd::Code(b'G') {
                                return Err("attacker COPY failed".into());
                            }
                        }
                        Phase::MidBatch => {
                            let t = a.tag();
                            let mut b = proto::parse("att", &format!("{} SELECT v FROM t", t.render()), &[]);
                            b.extend_from_slice(&proto::bind("", "att", &[], &[], &[]));
                            a.send(&b).await;
                        }
                        _ => {}
                    }
                    Ok(a)
                }
            }
        }
        .await;
        match r {
            Ok(a) => attackers.push(a),
            Err(e) => {
                o.inconclusive = Some(format!("attacker setup: {}", e));
                env.finish().await;
                return o;
            }
        }
    }
    let holds_server = matches!(c.phase, Phase::InTxn | Phase::InCopy);
    o.nontrivial = holds_server || matches!(c.phase, Phase::MidBatch) || c.conns as usize > c.workers as usize;
    o.label(&format!("phase:{:?}", c.phase));
    if c.mem_mb > 0 {
        o.label("memory-limited");
    }
    // ---- payloads
    let mut blob = vec![];
    for p in &c.payloads {
        blob.extend_from_slice(&render(p, if c.mem_mb > 0 { 1 << 29 } else { 1 << 28 }));
        o.label(match p {
            Payload::Frame { .. } => "payload:frame",
            Payload::StartupPacket { .. } => "payload:startup_packet",
            Payload::Raw(_) => "payload:raw",
            Payload::StartupBody(_) => "payload:startup_body",
            Payload::Killer(_) => "payload:decoder-killer-from-fuzz-stage",
            Payload::Misplaced(_) => "payload:misplaced",
            Payload::BadBody(..) => "payload:bad_body",
            Payload::SyncStorm(_) => "payload:sync_storm",
            Payload::Valid(..) => "payload:valid_request",
            Payload::Sql { n, .. } if *n >= 3000 => "payload:sql_large",
            Payload::Sql { .. } => "payload:sql_small",
        });
    }
    for a in attackers.iter_mut() {
        a.send(&blob).await;
    }
    o.sub_evaluations = c.payloads.len() as u64 * attackers.len() as u64;
    tokio::time::sleep(Duration::from_millis(10)).await;
    // ---- while an unauthenticated attacker is still connected, the canary must be served
    // (an authenticated attacker may hold one server connection like any client inside a transaction; with a second
    // connection in the pool the canary must be served all the same)
    let canary_during = matches!(c.phase, Phase::Startup | Phase::Password | Phase::Admin) || (c.pool_size >= 2 && attackers.len() == 1);
    if canary_during {
        o.label("canary-served-during-attack");
        if let Err((s, d)) = canary_txn(&mut canary, t0, "while the attacker is connected").await {
            bail!(&s, d);
        }
    }
    if c.linger {
        tokio::time::sleep(Duration::from_millis(60)).await;
    }
    for a in attackers.iter_mut() {
        a.close();
    }
    // ---- afterwards
    if !env.pg.alive() {
        bail!("pooler-terminated", "pgcat exited after the attacker's bytes");
    }
    if let Err((s, d)) = canary_txn(&mut canary, t0, "after the attack").await {
        bail!(&s, d);
    }
    // the canary prepares and runs a statement whose text the attacker may have used as well
    {
        let mut b = proto::parse("cs", CANARY_SQL, &[]);
        b.extend_from_slice(&proto::bind("", "cs", &[], &[Some(b"1".to_vec())], &[]));
        b.extend_from_slice(&proto::describe(b'P', ""));
        b.extend_from_slice(&proto::execute("", 0));
        b.extend_from_slice(&proto::sync());
        canary.send(&b).await;
        let (msgs, end) = canary.read_until_ready(wire::T_REPLY).await;
        let codes: String = msgs.iter().map(|m| m.code as char).collect();
        if !matches!(end, ReadEnd::Ready(b'I')) {
            bail!("canary-not-answered", format!("canary's Parse/Bind/Describe/Execute/Sync of `{}` ended {:?} after {:?}", CANARY_SQL, end, codes));
        }
        if msgs.iter().any(|m| m.code == b'E') || !codes.starts_with("12T") || !codes.contains('D') {
            bail!("canary-got-error", format!("canary's Parse/Bind/Describe/Execute/Sync of `{}` was answered {:?} {:?}", CANARY_SQL, codes, crate::cli::errors(&msgs)));
        }
    }
    // a fresh client can still log in and be served
    match env.client(2, "u", "db", "pw", &[]).await {
        Ok(mut n) => {
            if let Err((s, d)) = canary_txn(&mut n, t0, "of a new client after the attack").await {
                bail!(&s, d);
            }
        }
        Err(e) => bail!("new-client-cannot-log-in", e),
    }
    // capacity: pool_size clients can be inside a transaction at the same time
    {
        let mut holders: Vec<Cli> = vec![];
        for k in 0..c.pool_size.max(1) {
            let mut h = match env.client(20 + k as u32, "u", "db", "pw", &[]).await {
                Ok(h) => h,
                Err(e) => bail!("new-client-cannot-log-in", e),
            };
            let x = prog::run_req(&mut h, &Req::Simple(vec![St::new(Sk::Begin)]), t0).await;
            if !matches!(x.end, ReadEnd::Ready(b'T')) {
                bail!("server-connection-out-of-service", format!("after the attack only {} of {} clients could open a transaction at the same time: BEGIN of client {} ended {:?} {:?}", k, c.pool_size, 20 + k as u32, x.end, crate::cli::errors(&x.reply)));
            }
            holders.push(h);
        }
        for h in holders.iter_mut() {
            let x = prog::run_req(h, &Req::Simple(vec![St::new(Sk::Commit)]), t0).await;
            if !matches!(x.end, ReadEnd::Ready(b'I')) {
                bail!("canary-not-answered", format!("COMMIT of a capacity probe ended {:?}", x.end));
            }
        }
    }
    if !env.pg.alive() {
        bail!("pooler-terminated", "pgcat exited");
    }
    let log = env.log();
    env.finish().await;
    // `SET` inside a transaction block that is then committed is outside what pgcat promises to undo (C02 excludes it)
    let set_in_txn_possible = matches!(c.phase, Phase::InTxn) || c.payloads.iter().any(|p| matches!(p, Payload::Valid(k, _) if k % 10 == 1));
    for (why, detail) in dirty_handovers(&log, c.cache) {
        if why == "guc-not-reset" && set_in_txn_possible {
            o.label("excluded:set-inside-committed-transaction");
            continue;
        }
        o.fail(&format!("dirty-handover:{}:phase={:?}", why, c.phase), format!("{}; case {:?}", detail, c));
        break;
    }
    o
}

/// Hand-overs of a backend connection between the attacker (its tagged statements and every untagged client message - the
/// canaries send none) and a well-behaved client, with the backend session state at that moment.
fn dirty_handovers(log: &[crate::mock::Event], cache_on: bool) -> Vec<(String, String)> {
    use crate::mock::EvKind;
    let mut out = vec![];
    let mut last: std::collections::HashMap<u64, u32> = Default::default();
    for e in log {
        if let EvKind::Rx { tags, snap, code, own, .. } = &e.kind {
            if *own {
                continue;
            }
            let senders: Vec<u32> = if tags.is_empty() { vec![10] } else { tags.iter().map(|t| if (10..20).contains(&t.client) { 10 } else { t.client }).collect() };
            for s in senders {
                if let Some(prev) = last.get(&e.conn) {
                    if *prev != s {
                        if let Some(why) = super::c02::unclean(snap, cache_on) {
                            out.push((why.clone(), format!("backend conn {} passed from client c{} to c{} while {} (message '{}', seq {}); snap={:?}", e.conn, prev, s, why, *code as char, e.seq, snap)));
                        }
                    }
                }
                last.insert(e.conn, s);
            }
        }
    }
    out
}
