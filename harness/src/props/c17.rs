//! C17 — shutdown is graceful.

use crate::cli::{AuthOutcome, Cli, Password, ReadEnd};
use crate::engine::{Outcome, Part, PartReport, Tier, WorkerCtx};
use crate::pgc::{self, PgcatConfig, ServerDef};
use crate::prog::{self, Req, Sk, St as Stm};
use crate::proto;
use crate::sqllex::Tag;
use crate::wire::{self, BackendSpec, Env};
use proptest::prelude::*;
use serde::{Deserialize, Serialize};
use std::time::{Duration, Instant};

pub fn check(tier: Tier, seed: u64, replay: (Option<&str>, Option<&str>)) -> Vec<PartReport> {
    crate::run_parts!(tier, seed, replay, [WirePart])
}

#[derive(Clone, Debug, Serialize, Deserialize, PartialEq)]
pub enum State {
    Idle,
    /// idle, has run transactions before
    IdleUsed,
    InTxn,
    /// autocommit statement held at the backend when the signal arrives
    InFlight,
    /// Parse/Bind/Execute sent, Sync not yet
    OpenBatch,
    /// start-up sent, password challenge unanswered
    MidAuth,
    /// session-mode client that owns a server
    SessionHolding,
    Admin,
}

#[derive(Clone, Debug, Serialize, Deserialize, PartialEq)]
pub enum Trigger {
    Sigint,
    AdminShutdown,
    Sigterm,
}

#[derive(Clone, Debug, Serialize, Deserialize)]
pub struct Case {
    pub states: Vec<State>,
    pub trigger: Trigger,
    pub shutdown_timeout_ms: u32,
    /// one mid-transaction client never finishes (exit must come from shutdown_timeout)
    pub one_never_leaves: bool,
    pub workers: u8,
    /// order in which the clients act after the signal
    pub order: Vec<u16>,
    /// clients that logged in, ran a statement and dropped their socket without Terminate before the signal
    #[serde(default)]
    pub gone_before: u8,
    /// the signal arrives only after the pooler has been up for longer than shutdown_timeout (then 2.5 s)
    #[serde(default)]
    pub late_signal: bool,
    /// connections that are not client sessions, made (and finished) before the signal: 0 = CancelRequest with an unknown key,
    /// 1 = CancelRequest with the key of the first client, 2 = connect and close without a byte, 3 = SSLRequest then close,
    /// 4 = login with a wrong password, 5 = start-up for an unconfigured database
    #[serde(default)]
    pub visitors_before: Vec<u8>,
}

const LATE_TIMEOUT_MS: u32 = 2500;

pub struct WirePart;

impl Part for WirePart {
    type Case = Case;
    fn prop(&self) -> &'static str {
        "C17"
    }
    fn name(&self) -> &'static str {
        "wire"
    }
    fn wire(&self) -> bool {
        true
    }
    fn rule(&self) -> String {
        "populations of 1..6 clients in generated states at signal time {idle (fresh or used), inside a transaction, statement held at the backend, extended batch without Sync, mid-authentication, session-mode owner, admin}, trigger SIGINT / admin SHUTDOWN / SIGTERM, shutdown_timeout 400 ms or 10 s, optionally one transaction that never ends, optionally 1..2 clients that dropped their socket before the signal, optionally 1..3 connections before the signal that never become sessions (CancelRequest with an unknown or a live key, connect-and-close, SSLRequest-and-close, failed login, unknown database), and in 8% of the cases a signal that arrives after an uptime longer than shutdown_timeout (2.5 s) with a transaction open; after the signal has been observed the clients act in a generated order and new admin / non-admin logins are attempted. Oracle: idle transaction-mode clients get the administrator-command error and a close; open work (transaction, held statement, unsynced batch) completes with the client's own rows and the client is disconnected afterwards; a client that was mid-authentication is refused or disconnected right after start-up; new non-admin logins are refused, admin logins accepted; the process exits with status 0 within 2 s of the last client leaving (or shutdown_timeout + 2 s when one never leaves); SIGTERM exits within 2 s regardless. Non-trivial = at least one client with open work at signal time".into()
    }
    fn cases(&self, tier: Tier) -> u64 {
        tier.pick(600, 8_000)
    }
    fn strategy(&self, _tier: Tier) -> BoxedStrategy<Case> {
        let state = prop_oneof![
            3 => Just(State::Idle),
            2 => Just(State::IdleUsed),
            4 => Just(State::InTxn),
            2 => Just(State::InFlight),
            2 => Just(State::OpenBatch),
            2 => Just(State::MidAuth),
            1 => Just(State::SessionHolding),
            1 => Just(State::Admin),
        ];
        (
            prop::collection::vec(state, 1..7),
            prop_oneof![5 => Just(Trigger::Sigint), 2 => Just(Trigger::AdminShutdown), 1 => Just(Trigger::Sigterm)],
            prop_oneof![Just(400u32), Just(10_000u32)],
            prop::bool::weighted(0.2),
            prop_oneof![Just(1u8), Just(2u8), Just(4u8)],
            prop::collection::vec(any::<u16>(), 8),
            prop_oneof![3 => Just(0u8), 1 => 1u8..3],
            prop::bool::weighted(0.08),
            prop_oneof![2 => Just(vec![]), 3 => prop::collection::vec(0u8..6, 1..4)],
        )
            .prop_map(|(states, trigger, _t, one_never_leaves, workers, order, gone_before, late_signal, visitors_before)| {
                // the short shutdown_timeout is only used for the "one transaction never ends" class, where
                // that transaction is the only open work (otherwise the timeout could legitimately cut
                // other clients off while the harness is still driving them)
                if one_never_leaves && trigger != Trigger::Sigterm {
                    let mut st: Vec<State> = states.into_iter().map(|s| if matches!(s, State::Idle | State::IdleUsed | State::Admin) { s } else { State::Idle }).collect();
                    st.push(State::InTxn);
                    Case { states: st, trigger, shutdown_timeout_ms: 400, one_never_leaves: true, workers, order, gone_before, late_signal: false, visitors_before: visitors_before.clone() }
                } else if late_signal && trigger != Trigger::Sigterm {
                    // few clients, one of them inside a transaction: the grace period must start at the signal
                    let mut st: Vec<State> = states.into_iter().take(2).collect();
                    st.push(State::InTxn);
                    Case { states: st, trigger, shutdown_timeout_ms: LATE_TIMEOUT_MS, one_never_leaves: false, workers, order, gone_before, late_signal: true, visitors_before: visitors_before.clone() }
                } else {
                    Case { states, trigger, shutdown_timeout_ms: 10_000, one_never_leaves: false, workers, order, gone_before, late_signal: false, visitors_before: visitors_before.clone() }
                }
            })
            .boxed()
    }
    fn run(&self, c: &Case, ctx: &mut WorkerCtx) -> Outcome {
        wire::run_async(run_case(c, ctx))
    }
}

fn config(mocks: &[crate::mock::MockServer], c: &Case) -> PgcatConfig {
    let mut cfg = PgcatConfig::new();
    cfg.set_general("worker_threads", &c.workers.to_string());
    cfg.set_general("shutdown_timeout", &c.shutdown_timeout_ms.to_string());
    let servers = vec![ServerDef { host: mocks[0].ip.clone(), port: mocks[0].port, role: "primary".into() }];
    cfg.pools.push(pgc::simple_pool("db", "u", "pw", 8, servers.clone()));
    let mut sess = pgc::simple_pool("sess", "u", "pw", 4, servers);
    sess.set("pool_mode", "\"session\"");
    cfg.pools.push(sess);
    cfg
}

const ADMIN_MSG: &str = "terminating connection due to administrator command";

/// The client must receive the administrator-command error and be disconnected within `within`.
async fn expect_kick(cli: &mut Cli, within: Duration) -> Result<(), String> {
    let (m, e) = cli.read_until_closed(within).await;
    let got_msg = m.iter().any(|x| x.code == b'E' && proto::error_message(&x.body).contains(ADMIN_MSG));
    match (got_msg, e) {
        (true, ReadEnd::Closed) => Ok(()),
        (false, ReadEnd::Closed) => Err(format!("disconnected without the administrator-command error (messages {:?})", m.iter().map(|x| x.code as char).collect::<String>())),
        (_, other) => Err(format!("still connected after {:?} ({:?}; error seen: {})", within, other, got_msg)),
    }
}

async fn own_select(cli: &mut Cli, t0: Instant) -> Result<(), String> {
    let x = prog::run_req(cli, &Req::Simple(vec![Stm::new(Sk::Select).rows(2)]), t0).await;
    if !matches!(x.end, ReadEnd::Ready(_)) {
        return Err(format!("statement inside the open transaction ended {:?} (errors {:?})", x.end, crate::cli::errors(&x.reply)));
    }
    if x.reply.iter().any(|m| m.code == b'E') {
        return Err(format!("statement inside the open transaction got an error {:?}", crate::cli::errors(&x.reply)));
    }
    prog::check_own_rows(&x).map(|_| ())
}

async fn run_case(c: &Case, ctx: &mut WorkerCtx) -> Outcome {
    let mut o = Outcome::pass();
    let mut env = match Env::start(ctx, &[BackendSpec::trust("127.0.0.1", "p0")], |m| config(m, c)).await {
        Ok(e) => e,
        Err(e) => {
            o.inconclusive = Some(e);
            return o;
        }
    };
    let t0 = Instant::now();
    // ---- bring every client into its state
    struct Cl {
        cli: Cli,
        state: State,
        tag: Option<Tag>,
    }
    let mut cls: Vec<Cl> = vec![];
    for (i, st) in c.states.iter().enumerate() {
        let id = i as u32 + 1;
        let r: Result<Cl, String> = async {
            match st {
                State::Admin => Ok(Cl { cli: env.client(id, pgc::ADMIN_USER, "pgcat", pgc::ADMIN_PASS, &[]).await?, state: st.clone(), tag: None }),
                State::MidAuth => {
                    let mut cli = Cli::connect(id, &env.addr(), false).await.map_err(|e| e.to_string())?;
                    cli.send(&proto::startup_packet(&[("user", "u"), ("database", "db")])).await;
                    // wait for the MD5 challenge, leave it unanswered
                    let m = cli.read_msg(Duration::from_secs(3)).await.map_err(|e| format!("{:?}", e))?;
                    if m.code != b'R' || m.body.len() < 8 {
                        return Err("no password challenge".into());
                    }
                    cli.set_param("salt".into(), m.body[4..8].iter().map(|b| format!("{:02x}", b)).collect());
                    Ok(Cl { cli, state: st.clone(), tag: None })
                }
                State::SessionHolding => {
                    let mut cli = env.client(id, "u", "sess", "pw", &[]).await?;
                    own_select(&mut cli, t0).await?;
                    Ok(Cl { cli, state: st.clone(), tag: None })
                }
                _ => {
                    let mut cli = env.client(id, "u", "db", "pw", &[]).await?;
                    let mut tag = None;
                    match st {
                        State::IdleUsed => own_select(&mut cli, t0).await?,
                        State::InTxn => {
                            let x = prog::run_req(&mut cli, &Req::Simple(vec![Stm::new(Sk::Begin)]), t0).await;
                            if !matches!(x.end, ReadEnd::Ready(b'T')) {
                                return Err("BEGIN failed".into());
                            }
                            own_select(&mut cli, t0).await?;
                        }
                        State::InFlight => {
                            let t = cli.tag();
                            cli.send(&proto::query(&format!("{} SELECT v FROM t /*@ rows=2 hold */", t.render()))).await;
                            if env.shared.wait_tag(t, wire::T_REPLY).await.is_none() {
                                return Err("held statement never reached the backend".into());
                            }
                            tag = Some(t);
                        }
                        State::OpenBatch => {
                            let t = cli.tag();
                            let mut b = proto::parse("", &format!("{} SELECT v FROM t /*@ rows=2 */", t.render()), &[]);
                            b.extend_from_slice(&proto::bind("", "", &[], &[], &[]));
                            b.extend_from_slice(&proto::execute("", 0));
                            cli.send(&b).await;
                            tag = Some(t);
                            // let pgcat read and buffer the messages
                            tokio::time::sleep(Duration::from_millis(15)).await;
                        }
                        _ => {}
                    }
                    Ok(Cl { cli, state: st.clone(), tag })
                }
            }
        }
        .await;
        match r {
            Ok(cl) => cls.push(cl),
            Err(e) => {
                o.inconclusive = Some(format!("setting up client {} in state {:?}: {}", id, st, e));
                env.shared.release_all();
                env.finish().await;
                return o;
            }
        }
    }
    let open_work = c.states.iter().any(|s| matches!(s, State::InTxn | State::InFlight | State::OpenBatch | State::MidAuth));
    o.nontrivial = open_work;
    for s in &c.states {
        o.label(&format!("state:{:?}", s));
    }
    o.label(&format!("trigger:{:?}", c.trigger));

    // ---- clients that came and went abruptly before the signal
    for k in 0..c.gone_before {
        if let Ok(mut g) = env.client(50 + k as u32, "u", "db", "pw", &[]).await {
            let _ = own_select(&mut g, t0).await;
            g.close();
        }
        o.label("client_dropped_before_signal");
    }
    // ---- connections that never become client sessions (they must not disturb the shutdown accounting)
    for (k, v) in c.visitors_before.iter().enumerate() {
        o.label(&format!("visitor_before_signal:{}", v));
        if let Ok(mut g) = Cli::connect(70 + k as u32, &env.addr(), false).await {
            match v {
                0 => {
                    g.send(&proto::cancel_request(123_456 + k as i32, 987_654)).await;
                }
                1 => {
                    let (pid, key) = cls.first().map(|c| (c.cli.backend_pid, c.cli.backend_key)).unwrap_or((1, 1));
                    g.send(&proto::cancel_request(pid, key)).await;
                }
                2 => {}
                3 => {
                    g.send(&proto::ssl_request()).await;
                    let _ = g.read_msg(Duration::from_millis(50)).await;
                }
                4 => {
                    let _ = g.startup("u", "db", &[], Password::Md5("u", "not-the-password")).await;
                }
                _ => {
                    let _ = g.startup("u", "no_such_db", &[], Password::Md5("u", "pw")).await;
                }
            }
            // the pooler closes cancel connections itself; give it a moment, then close ours
            let _ = g.read_until_closed(Duration::from_millis(60)).await;
            g.close();
        }
    }
    if c.gone_before > 0 || !c.visitors_before.is_empty() {
        tokio::time::sleep(Duration::from_millis(40)).await;
    }
    if c.late_signal {
        // uptime beyond shutdown_timeout
        let up = t0.elapsed();
        let want = Duration::from_millis(LATE_TIMEOUT_MS as u64 + 250);
        if up < want {
            tokio::time::sleep(want - up).await;
        }
        o.label("signal_after_uptime_longer_than_shutdown_timeout");
    }
    // ---- trigger
    let t_signal = Instant::now();
    match c.trigger {
        Trigger::Sigint => env.pg.signal(libc::SIGINT),
        Trigger::Sigterm => env.pg.signal(libc::SIGTERM),
        Trigger::AdminShutdown => {
            let mut a = match env.admin().await {
                Ok(a) => a,
                Err(e) => {
                    o.inconclusive = Some(e);
                    env.finish().await;
                    return o;
                }
            };
            let (m, e) = a.simple("SHUTDOWN", wire::T_REPLY).await;
            if !matches!(e, ReadEnd::Ready(_)) || crate::cli::row_texts(&m).first().map(|x| x != "t").unwrap_or(true) {
                o.fail("shutdown-command-failed", format!("SHUTDOWN -> {:?} {:?}", e, crate::cli::row_texts(&m)));
                env.shared.release_all();
                env.finish().await;
                return o;
            }
        }
    }
    env.shared.ctl("signal sent");
    if c.trigger == Trigger::Sigterm {
        match env.pg.wait_exit(Duration::from_secs(2)).await {
            Some(0) => {}
            Some(code) => o.fail("sigterm-exit-status", format!("exit status {} after SIGTERM", code)),
            None => o.fail("sigterm-not-immediate", "pgcat still running 2 s after SIGTERM".to_string()),
        }
        env.shared.release_all();
        env.finish().await;
        return o;
    }

    macro_rules! done {
        ($sig:expr, $d:expr) => {{
            if c.late_signal && t_signal.elapsed() > Duration::from_millis(LATE_TIMEOUT_MS as u64 * 6 / 10) {
                // the (short) grace period of this class may legitimately have run out while the harness was still acting
                o.inconclusive = Some(format!("late-signal class overran its grace period: {}", $d));
                env.shared.release_all();
                env.finish().await;
                return o;
            }
            o.fail($sig, format!("{}; case {:?}; pgcat stderr: {}", $d, c, env.pg.stderr_tail(30000).lines().filter(|l| !l.contains("AddressStats") && !l.contains("pgcat::config") && !l.contains("Pool reaper")).collect::<Vec<_>>().join("\n")));
            env.shared.release_all();
            env.finish().await;
            return o;
        }};
    }

    // ---- observe the signal: idle clients are told, or logins start being refused
    let mut observed = false;
    for cl in cls.iter_mut() {
        if matches!(cl.state, State::Idle | State::IdleUsed) {
            if let Err(e) = expect_kick(&mut cl.cli, Duration::from_secs(2)).await {
                done!("idle-client-not-disconnected", format!("client in state {:?}: {}", cl.state, e));
            }
            observed = true;
        }
    }
    if !observed {
        let deadline = Instant::now() + Duration::from_secs(2);
        loop {
            if let Ok(mut p) = Cli::connect(700, &env.addr(), false).await {
                let r = p.startup("u", "db", &[], Password::Md5("u", "pw")).await;
                if !matches!(r, AuthOutcome::Ok) {
                    break;
                }
                // admitted: the signal has not been processed yet; this probe must now be told to go
                let _ = expect_kick(&mut p, Duration::from_secs(2)).await;
            } else {
                break;
            }
            if Instant::now() > deadline {
                done!("logins-still-admitted", "non-admin logins were still admitted 2 s after the signal");
            }
            tokio::time::sleep(Duration::from_millis(5)).await;
        }
    }
    // ---- new logins
    if env.pg.alive() {
        match Cli::connect(701, &env.addr(), false).await {
            Ok(mut p) => {
                let r = p.startup("u", "db", &[], Password::Md5("u", "pw")).await;
                if matches!(r, AuthOutcome::Ok) {
                    done!("non-admin-login-admitted-during-shutdown", "a new non-admin client was admitted after the signal had been observed");
                }
            }
            Err(_) => {}
        }
        // an admin login is accepted while the process is still up
        // (a client with an unsynced batch holds no server yet and is treated like an idle one)
        let stays_up = cls.iter().any(|c| matches!(c.state, State::InTxn | State::InFlight | State::SessionHolding));
        if stays_up {
            match env.admin().await {
                Ok(mut a) => {
                    if wire::admin_query(&mut a, "SHOW VERSION").await.is_err() {
                        done!("admin-not-served-during-shutdown", "admin client admitted but SHOW VERSION failed");
                    }
                }
                Err(e) => done!("admin-login-refused-during-shutdown", format!("admin login failed while clients still hold work: {}", e)),
            }
        }
    }
    // ---- clients with open work act, in the generated order
    let mut idxs: Vec<usize> = (0..cls.len()).filter(|i| matches!(cls[*i].state, State::InTxn | State::InFlight | State::OpenBatch | State::MidAuth | State::SessionHolding | State::Admin)).collect();
    let mut ordered = vec![];
    let mut k = 0;
    while !idxs.is_empty() {
        let j = crate::engine::pick(c.order[k % c.order.len()], idxs.len());
        ordered.push(idxs.remove(j));
        k += 1;
    }
    let mut never_idx: Option<usize> = None;
    if c.one_never_leaves {
        never_idx = ordered.iter().cloned().find(|i| cls[*i].state == State::InTxn);
    }
    for i in ordered {
        o.sub_evaluations += 1;
        if Some(i) == never_idx {
            continue;
        }
        let state = cls[i].state.clone();
        let tag = cls[i].tag;
        let cl = &mut cls[i];
        match state {
            State::InTxn => {
                if let Err(e) = own_select(&mut cl.cli, t0).await {
                    done!("open-transaction-broken-by-shutdown", e);
                }
                let x = prog::run_req(&mut cl.cli, &Req::Simple(vec![Stm::new(Sk::Commit)]), t0).await;
                if !matches!(x.end, ReadEnd::Ready(b'I')) || crate::cli::command_tags(&x.reply).first().map(|t| t != "COMMIT").unwrap_or(true) {
                    done!("open-transaction-broken-by-shutdown", format!("COMMIT ended {:?} tags {:?} errors {:?}", x.end, crate::cli::command_tags(&x.reply), crate::cli::errors(&x.reply)));
                }
                if let Err(e) = expect_kick(&mut cl.cli, Duration::from_secs(2)).await {
                    done!("client-not-disconnected-after-its-transaction", e);
                }
            }
            State::InFlight => {
                env.shared.release(tag.unwrap());
                let (m, e) = cl.cli.read_until_ready(wire::T_REPLY).await;
                if !matches!(e, ReadEnd::Ready(_)) || crate::cli::row_texts(&m).len() != 2 {
                    done!("in-flight-statement-broken-by-shutdown", format!("held statement ended {:?} with {} rows", e, crate::cli::row_texts(&m).len()));
                }
                if let Err(e) = expect_kick(&mut cl.cli, Duration::from_secs(2)).await {
                    done!("client-not-disconnected-after-its-transaction", e);
                }
            }
            State::OpenBatch => {
                cl.cli.send(&proto::sync()).await;
                let (m, e) = cl.cli.read_until_ready(wire::T_REPLY).await;
                // the batch may be served or refused as a whole, but the client must end up disconnected
                let served = matches!(e, ReadEnd::Ready(_)) && crate::cli::row_texts(&m).len() == 2;
                let refused = m.iter().any(|x| x.code == b'E' && proto::error_message(&x.body).contains(ADMIN_MSG));
                if !served && !refused {
                    done!("batch-broken-by-shutdown", format!("unsynced batch ended {:?} rows {} errors {:?}", e, crate::cli::row_texts(&m).len(), crate::cli::errors(&m)));
                }
                if served {
                    if let Err(e) = expect_kick(&mut cl.cli, Duration::from_secs(2)).await {
                        done!("client-not-disconnected-after-its-transaction", format!("after its batch: {}", e));
                    }
                }
            }
            State::MidAuth => {
                let salt: Vec<u8> = (0..4).map(|k| u8::from_str_radix(&cl.cli.param("salt").unwrap_or("00000000")[2 * k..2 * k + 2], 16).unwrap_or(0)).collect();
                cl.cli.send(&proto::password_message(&proto::md5_password_body("u", "pw", &salt))).await;
                // refused outright, or admitted and then told to go
                if let Err(e) = expect_kick(&mut cl.cli, Duration::from_secs(2)).await {
                    // a client that had not finished authenticating is not yet counted: the process may
                    // already have exited because every counted client was gone, which closes the socket
                    // without a message
                    let exited = env.pg.wait_exit(Duration::from_millis(300)).await == Some(0);
                    if !(exited && e.contains("disconnected without")) {
                        done!("late-authenticating-client-not-disconnected", e);
                    }
                }
            }
            State::SessionHolding => {
                // not settled by the property whether it is kicked; it must not hang the harness
                cl.cli.send(&proto::terminate()).await;
                cl.cli.close();
            }
            State::Admin => {
                if cl.cli.is_open() && env.pg.alive() {
                    let _ = wire::admin_query(&mut cl.cli, "SHOW VERSION").await;
                }
            }
            _ => {}
        }
    }
    // ---- exit
    let t_last = Instant::now();
    let (limit, what) = if never_idx.is_some() {
        (Duration::from_millis(c.shutdown_timeout_ms as u64 + 2000).saturating_sub(t_signal.elapsed().min(Duration::from_millis(c.shutdown_timeout_ms as u64))), "shutdown_timeout + 2 s")
    } else {
        (Duration::from_secs(2), "2 s after the last client left")
    };
    if never_idx.is_some() {
        o.label("one_never_leaves");
    }
    match env.pg.wait_exit(limit).await {
        Some(0) => {}
        Some(code) => done!("exit-status", format!("pgcat exited with status {}", code)),
        None => done!("process-did-not-exit", format!("pgcat still running {} ({:?} after the last client action, {:?} after the signal)", what, t_last.elapsed(), t_signal.elapsed())),
    }
    env.shared.release_all();
    env.finish().await;
    o
}
