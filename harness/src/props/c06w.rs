//! C06 wire half: a statement is executed only on servers of the selected shard; the selection is
//! sticky; an out-of-range SET SHARD is refused and changes nothing.

use crate::cli::ReadEnd;
use crate::engine::{Outcome, Part, Tier, WorkerCtx};
use crate::mock::EvKind;
use crate::proto;
use crate::pgc::{PgcatConfig, PoolDef, ServerDef, ShardDef, UserDef};
use crate::refhash;
use crate::wire::{self, BackendSpec, Env};
use proptest::prelude::*;
use serde::{Deserialize, Serialize};

#[derive(Clone, Debug, Serialize, Deserialize)]
pub enum Step {
    SetShard(u8),
    SetKey(i64),
    Query,
    CommentKey(i64),
    CommentShard(u8),
    LiteralKey(i64, u8),
    ShowShard,
    /// Parse/Bind/Execute/Sync in one batch, the key is a bound parameter: (key, binary?, binary width 2/4/8, named statement?, an unrelated parameter first?)
    BindKey(i64, bool, u8, bool, bool),
    /// RELOAD with a configuration that has this many shards and this sharding function; the connected client goes on
    Reload(u8, bool),
}

#[derive(Clone, Debug, Serialize, Deserialize)]
pub struct Case {
    pub shards: u8,
    pub sha1: bool,
    pub replicas: bool,
    pub steps: Vec<Step>,
    /// db_activity_based_routing on (short init delay): role decisions change, shard decisions must not
    #[serde(default)]
    pub activity: bool,
    /// prepared_statements_cache_size (0 = off)
    #[serde(default)]
    pub stmt_cache: u8,
}

pub struct WirePart;

impl Part for WirePart {
    type Case = Case;
    fn prop(&self) -> &'static str {
        "C06"
    }
    fn name(&self) -> &'static str {
        "wire"
    }
    fn wire(&self) -> bool {
        true
    }
    fn rule(&self) -> String {
        "2..5 or 11..13 shards (one mock primary each, optionally a replica), pg_bigint_hash or sha1, db_activity_based_routing on in 30% of the cases, statement cache off/1/8; sessions of 2..10 steps over {SET SHARD n (in and out of range), SET SHARDING KEY k, plain tagged query, query with sharding_key / shard_id comment, query with a literal equated to the automatic sharding key (4 shapes), a Parse/Bind/Execute/Sync batch whose bound parameter (text, or binary of width 2/4/8, unnamed or named statement, optionally after an unrelated parameter; negative keys too) is equated to the automatic sharding key, SHOW SHARD, RELOAD to another shard count / sharding function while the client stays connected}; model = sticky shard selection with the reference partition function; oracle: each tagged statement is logged by a backend of the model's shard, out-of-range SET SHARD answers an error and leaves the selection, SHOW SHARD prints the model's value. Non-trivial = at least two different shards selected in the session or an out-of-range SET SHARD".into()
    }
    fn cases(&self, tier: Tier) -> u64 {
        tier.pick(1_000, 12_000)
    }
    fn strategy(&self, _tier: Tier) -> BoxedStrategy<Case> {
        let key = prop_oneof![3 => 0i64..1000, 2 => any::<i64>().prop_map(|k| k.checked_abs().unwrap_or(i64::MAX)), 1 => Just(i64::MAX)];
        let step = prop_oneof![
            3 => (0u8..16).prop_map(Step::SetShard),
            3 => key.clone().prop_map(Step::SetKey),
            4 => Just(Step::Query),
            2 => key.clone().prop_map(Step::CommentKey),
            1 => (0u8..16).prop_map(Step::CommentShard),
            3 => (key.clone(), 0u8..4).prop_map(|(k, s)| Step::LiteralKey(k, s)),
            3 => (any::<i64>(), key, any::<bool>(), prop_oneof![Just(2u8), Just(4u8), Just(8u8)], any::<bool>(), any::<bool>(), any::<bool>())
                .prop_map(|(anyk, posk, binary, width, named, extra, neg)| Step::BindKey(if neg { anyk } else { posk }, binary, width, named, extra)),
            2 => Just(Step::ShowShard),
            1 => (2u8..=5, any::<bool>()).prop_map(|(n, sha1)| Step::Reload(n, sha1)),
        ];
        (
            prop_oneof![4 => 2u8..=5, 2 => 11u8..=13],
            prop::bool::weighted(0.25),
            prop::bool::weighted(0.3),
            prop::collection::vec(step, 2..11),
            prop::bool::weighted(0.3),
            prop_oneof![Just(0u8), Just(1u8), Just(8u8)],
        )
            .prop_map(|(shards, sha1, replicas, steps, activity, stmt_cache)| Case { shards, sha1, replicas, steps, activity, stmt_cache })
            .boxed()
    }
    fn run(&self, c: &Case, ctx: &mut WorkerCtx) -> Outcome {
        wire::run_async(run_case(c, ctx))
    }
}

fn config(mocks: &[crate::mock::MockServer], c: &Case) -> PgcatConfig {
    config_for(mocks, c.shards, c.sha1, c.replicas, c)
}

fn config_for(mocks: &[crate::mock::MockServer], n_shards: u8, sha1: bool, replicas: bool, c: &Case) -> PgcatConfig {
    let mut cfg = PgcatConfig::new();
    cfg.set_general("connect_timeout", "2000");
    let per = if replicas { 2 } else { 1 };
    let mut shards = vec![];
    for s in 0..n_shards as usize {
        let mut servers = vec![ServerDef { host: mocks[s * per].ip.clone(), port: mocks[s * per].port, role: "primary".into() }];
        if replicas {
            servers.push(ServerDef { host: mocks[s * per + 1].ip.clone(), port: mocks[s * per + 1].port, role: "replica".into() });
        }
        shards.push(ShardDef { id: s.to_string(), database: format!("shard{}", s), servers, mirrors: vec![] });
    }
    cfg.pools.push(PoolDef {
        name: "db".into(),
        settings: vec![
            ("pool_mode".into(), "\"transaction\"".into()),
            ("query_parser_enabled".into(), "true".into()),
            ("query_parser_read_write_splitting".into(), "true".into()),
            ("primary_reads_enabled".into(), "true".into()),
            ("sharding_function".into(), if sha1 { "\"sha1\"".into() } else { "\"pg_bigint_hash\"".into() }),
            ("automatic_sharding_key".into(), "\"data.id\"".into()),
            ("sharding_key_regex".into(), "'/\\* sharding_key: (\\d+) \\*/'".into()),
            ("shard_id_regex".into(), "'/\\* shard_id: (\\d+) \\*/'".into()),
        ],
        users: vec![UserDef { key: "0".into(), username: "u".into(), password: Some("pw".into()), pool_size: 2, extra: vec![] }],
        shards,
        raw_tail: String::new(),
    });
    if c.activity {
        let p = cfg.pools.last_mut().unwrap();
        p.set("db_activity_based_routing", "true");
        p.set("db_activity_init_delay", "150");
        p.set("table_mutation_cache_ms_ttl", "300");
    }
    if c.stmt_cache > 0 {
        cfg.pools.last_mut().unwrap().set("prepared_statements_cache_size", &c.stmt_cache.to_string());
    }
    cfg
}

async fn run_case(c: &Case, ctx: &mut WorkerCtx) -> Outcome {
    let mut o = Outcome::pass();
    let per = if c.replicas { 2 } else { 1 };
    let mut specs = vec![];
    let max_shards = c.steps.iter().filter_map(|s| if let Step::Reload(n, _) = s { Some(*n) } else { None }).chain(std::iter::once(c.shards)).max().unwrap_or(c.shards);
    for s in 0..max_shards as usize {
        specs.push(BackendSpec::trust("127.0.0.1", &format!("s{}p", s)));
        if c.replicas {
            specs.push(BackendSpec::trust("127.0.0.2", &format!("s{}r", s)));
        }
    }
    let env = match Env::start(ctx, &specs, |m| config(m, c)).await {
        Ok(e) => e,
        Err(e) => {
            o.inconclusive = Some(e);
            return o;
        }
    };
    let mut cli = match env.client(1, "u", "db", "pw", &[]).await {
        Ok(c) => c,
        Err(e) => {
            o.inconclusive = Some(format!("login: {}", e));
            env.finish().await;
            return o;
        }
    };
    // current configuration (changes at a Reload step)
    let mut cur_n = c.shards;
    let mut cur_sha1 = c.sha1;
    let reff = |k: i64, n: u8, sha1: bool| -> usize { (if sha1 { refhash::sha1_shard(k, n as u64) } else { refhash::pg_partition(k, n as u64) }) as usize };
    let mut shard: Option<usize> = None;
    let mut seen_shards = std::collections::HashSet::new();
    let mut out_of_range = false;
    if c.shards > 10 {
        o.label("more_than_10_shards");
    }
    if c.activity {
        o.label("activity_routing");
    }
    for (idx, st) in c.steps.iter().enumerate() {
        o.sub_evaluations += 1;
        // (sql, tagged?, expected shard change)
        let mut tag = None;
        let mut batch: Option<Vec<u8>> = None;
        let sql = match st {
            Step::BindKey(k, binary, width, named, extra) => {
                let t = cli.tag();
                tag = Some(t);
                let key: i64 = if *binary {
                    match width {
                        2 => *k as i16 as i64,
                        4 => *k as i32 as i64,
                        _ => *k,
                    }
                } else {
                    *k
                };
                shard = Some(reff(key, cur_n, cur_sha1));
                let sql = if *extra {
                    format!("{} SELECT * FROM data WHERE v = $1 AND id = $2", t.render())
                } else {
                    format!("{} SELECT * FROM data WHERE id = $1", t.render())
                };
                let keyval: Vec<u8> = if *binary {
                    match width {
                        2 => (key as i16).to_be_bytes().to_vec(),
                        4 => (key as i32).to_be_bytes().to_vec(),
                        _ => key.to_be_bytes().to_vec(),
                    }
                } else {
                    key.to_string().into_bytes()
                };
                let kf: i16 = if *binary { 1 } else { 0 };
                let (formats, params): (Vec<i16>, Vec<Option<Vec<u8>>>) = if *extra {
                    (vec![0, kf], vec![Some(b"abc".to_vec()), Some(keyval)])
                } else if *binary {
                    (vec![1], vec![Some(keyval)])
                } else {
                    (vec![], vec![Some(keyval)])
                };
                let name = if *named { format!("st{}", idx) } else { String::new() };
                let mut b = proto::parse(&name, &sql, &[]);
                b.extend_from_slice(&proto::bind("", &name, &formats, &params, &[]));
                b.extend_from_slice(&proto::execute("", 0));
                b.extend_from_slice(&proto::sync());
                batch = Some(b);
                o.label(if *binary { "bind_binary" } else { "bind_text" });
                sql
            }
            Step::SetShard(s) => format!("SET SHARD TO '{}'", s),
            Step::SetKey(k) => format!("SET SHARDING KEY TO '{}'", k),
            Step::ShowShard => "SHOW SHARD".to_string(),
            Step::Reload(n, sha1) => {
                // new file, RELOAD through the admin console (answered when the reload is done), then an explicit selection
                // that is valid under both configurations
                let toml = config_for(&env.mocks, *n, *sha1, c.replicas, c).to_toml(env.pg.port);
                env.pg.write_config(&toml);
                let ok = match env.admin().await {
                    Ok(mut a) => {
                        let (m, e) = a.simple("RELOAD", wire::T_REPLY).await;
                        matches!(e, ReadEnd::Ready(_)) && !m.iter().any(|x| x.code == b'E')
                    }
                    Err(_) => false,
                };
                if !ok {
                    o.inconclusive = Some("RELOAD of a valid file failed".into());
                    break;
                }
                cur_n = *n;
                cur_sha1 = *sha1;
                o.label("reload_changed_sharding");
                "SET SHARD TO '0'".to_string()
            }
            Step::Query => {
                let t = cli.tag();
                tag = Some(t);
                format!("{} SELECT v FROM other_table", t.render())
            }
            Step::CommentKey(k) => {
                let t = cli.tag();
                tag = Some(t);
                shard = Some(reff(*k, cur_n, cur_sha1));
                format!("/* sharding_key: {} */ {} SELECT v FROM other_table", k, t.render())
            }
            Step::CommentShard(s) => {
                let t = cli.tag();
                tag = Some(t);
                let s = *s as usize % cur_n as usize;
                shard = Some(s);
                format!("/* shard_id: {} */ {} SELECT v FROM other_table", s, t.render())
            }
            Step::LiteralKey(k, shape) => {
                let t = cli.tag();
                tag = Some(t);
                shard = Some(reff(*k, cur_n, cur_sha1));
                match shape {
                    0 => format!("{} SELECT * FROM data WHERE id = {}", t.render(), k),
                    1 => format!("{} SELECT * FROM data WHERE data.id = {} AND v = 'x'", t.render(), k),
                    2 => format!("{} INSERT INTO data (id, v) VALUES ({}, 'x')", t.render(), k),
                    _ => format!("{} UPDATE data SET v = 'y' WHERE id = {}", t.render(), k),
                }
            }
        };
        let (m, e) = match &batch {
            Some(b) => {
                if cli.send(b).await {
                    cli.read_until_ready(wire::T_REPLY).await
                } else {
                    (vec![], ReadEnd::Closed)
                }
            }
            None => cli.simple(&sql, wire::T_REPLY).await,
        };
        if !matches!(e, ReadEnd::Ready(_)) {
            o.inconclusive = Some(format!("{:?} ended {:?}", sql, e));
            break;
        }
        let errs = crate::cli::errors(&m);
        match st {
            Step::SetShard(s) => {
                if (*s as usize) < cur_n as usize {
                    if !errs.is_empty() {
                        o.fail("valid-set-shard-refused", format!("{} answered {:?}", sql, errs));
                        break;
                    }
                    shard = Some(*s as usize);
                } else {
                    out_of_range = true;
                    if errs.is_empty() {
                        o.fail("out-of-range-set-shard-accepted", format!("{} with {} shards was not refused", sql, cur_n));
                        break;
                    }
                }
            }
            Step::Reload(..) => {
                if !errs.is_empty() {
                    o.fail("valid-set-shard-refused", format!("{} right after the reload answered {:?}", sql, errs));
                    break;
                }
                shard = Some(0);
            }
            Step::SetKey(k) => {
                if !errs.is_empty() {
                    o.fail("set-sharding-key-refused", format!("{} answered {:?}", sql, errs));
                    break;
                }
                shard = Some(reff(*k, cur_n, cur_sha1));
            }
            Step::ShowShard => {
                let rows = crate::cli::row_texts(&m);
                let want = shard.map(|s| s.to_string()).unwrap_or_else(|| "unset".into());
                if rows.first().map(|r| r != &want).unwrap_or(true) {
                    o.fail("show-shard-wrong", format!("SHOW SHARD printed {:?}, model says {}", rows, want));
                    break;
                }
            }
            _ => {
                let t = tag.unwrap();
                let want = shard.unwrap_or(0);
                seen_shards.insert(want);
                let log = env.log();
                let servers: Vec<usize> = log
                    .iter()
                    .filter_map(|ev| match &ev.kind {
                        EvKind::Rx { tags, .. } if tags.contains(&t) => Some(ev.server),
                        _ => None,
                    })
                    .collect();
                if servers.is_empty() {
                    o.fail("statement-not-executed", format!("{:?} reached no backend (errors {:?}); model shard {}", sql, errs, want));
                    break;
                }
                if let Some(bad) = servers.iter().find(|sv| **sv / per != want) {
                    let path = match st {
                        Step::Query => "sticky",
                        Step::CommentKey(_) => "comment_key",
                        Step::CommentShard(_) => "comment_shard",
                        Step::BindKey(_, true, ..) => "bind_binary",
                        Step::BindKey(..) => "bind_text",
                        _ => "literal",
                    };
                    o.fail(
                        &format!("executed-on-wrong-shard:{}", path),
                        format!("{:?} was executed on backend {} (shard {}) but the selected shard is {} (of {})", sql, env.mocks[*bad].label, bad / per, want, cur_n),
                    );
                    break;
                }
            }
        }
    }
    env.finish().await;
    if seen_shards.len() >= 2 {
        o.label("several_shards_used");
    }
    if out_of_range {
        o.label("out_of_range_set_shard");
    }
    o.nontrivial = seen_shards.len() >= 2 || out_of_range;
    o
}
