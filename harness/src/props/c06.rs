//! C06 — a sharding key always maps to PostgreSQL's hash partition, by every routing path.

use crate::engine::{Outcome, Part, PartReport, Tier, WorkerCtx};
use crate::proto;
use crate::refhash;
use bytes::BytesMut;
#[cfg(feature = "lib")]
use pgcat::pool::PoolSettings;
#[cfg(feature = "lib")]
use pgcat::query_router::QueryRouter;
#[cfg(feature = "lib")]
use pgcat::sharding::{Sharder, ShardingFunction};
use proptest::prelude::*;
use serde::{Deserialize, Serialize};
use serde_json::json;
use std::sync::atomic::{AtomicU64, Ordering};
use std::time::Instant;

pub fn check(tier: Tier, seed: u64, replay: (Option<&str>, Option<&str>)) -> Vec<PartReport> {
    #[cfg(feature = "lib")]
    {
        let mut out = vec![];
        if replay.0.is_none() {
            out.push(sweep(tier));
        }
        out.extend(crate::run_parts!(tier, seed, replay, [FuncPart, PathPart, super::c06w::WirePart]));
        out
    }
    #[cfg(not(feature = "lib"))]
    {
        let mut out = vec![crate::engine::lib_unavailable("C06", "sweep+func+paths")];
        out.extend(crate::run_parts!(tier, seed, replay, [super::c06w::WirePart]));
        out
    }
}

// ------------------------------------------------------------------------------ hash sweep

#[cfg(feature = "lib")]
/// Differential sweep of the 32-bit word the hash consumes: Sharder (through its public API, with
/// modulus usize::MAX so the full 64-bit row hash is observable) vs the PostgreSQL transcription.
fn sweep(tier: Tier) -> PartReport {
    let start = Instant::now();
    let mut r = PartReport {
        prop: "C06".into(),
        name: "sweep".into(),
        rule: "every 32-bit word w as key (hi half 0, so the folded word is w): Sharder::new(usize::MAX).shard(w) == PG row hash % usize::MAX; quick = every 256th residue class rotated + boundaries (2^24 words), thorough = all 2^32 words; every word is a distinct non-trivial input"
            .into(),
        ..Default::default()
    };
    if let Err(e) = refhash::selftest() {
        r.harness_error = Some(e);
        return r;
    }
    let stride: u64 = tier.pick(256, 1);
    let jobs = 16u64;
    let bad = AtomicU64::new(u64::MAX);
    let count = AtomicU64::new(0);
    std::thread::scope(|s| {
        for j in 0..jobs {
            let bad = &bad;
            let count = &count;
            s.spawn(move || {
                let sh = Sharder::new(usize::MAX, ShardingFunction::PgBigintHash);
                let lo = (1u64 << 32) / jobs * j;
                let hi = (1u64 << 32) / jobs * (j + 1);
                let mut w = lo + (j * 17) % stride;
                let mut n = 0u64;
                while w < hi {
                    let got = sh.shard(w as i64) as u64;
                    let want = refhash::partition_hash_of_word(w as u32) % (usize::MAX as u64);
                    if got != want {
                        bad.fetch_min(w, Ordering::SeqCst);
                        break;
                    }
                    n += 1;
                    w += stride;
                }
                count.fetch_add(n, Ordering::SeqCst);
            });
        }
    });
    // boundaries
    let sh = Sharder::new(usize::MAX, ShardingFunction::PgBigintHash);
    for w in [0u64, 1, 2, 0x7fff_ffff, 0x8000_0000, 0xffff_fffe, 0xffff_ffff] {
        let got = sh.shard(w as i64) as u64;
        let want = refhash::partition_hash_of_word(w as u32) % (usize::MAX as u64);
        if got != want {
            bad.fetch_min(w, Ordering::SeqCst);
        }
        count.fetch_add(1, Ordering::SeqCst);
    }
    r.evaluations = count.load(Ordering::SeqCst);
    r.sub_evaluations = r.evaluations;
    r.nontrivial = r.evaluations;
    r.distinct_nontrivial = r.evaluations;
    r.exhaustive = stride == 1;
    r.samples = vec![json!({"word": 0x8000_0000u32, "ref_row_hash": refhash::partition_hash_of_word(0x8000_0000)}), json!({"word": 1, "ref_row_hash": refhash::partition_hash_of_word(1)})];
    let b = bad.load(Ordering::SeqCst);
    if b != u64::MAX {
        let case = json!({"word": b});
        let path = crate::engine::write_replay("C06", "sweep", &case, "hash-word-mismatch", "");
        r.violations.push((
            "hash-word-mismatch".into(),
            format!(
                "key {} : Sharder row hash {} != PostgreSQL row hash {}",
                b,
                sh.shard(b as i64),
                refhash::partition_hash_of_word(b as u32)
            ),
            path,
        ));
    }
    r.wall_s = start.elapsed().as_secs_f64();
    r
}

// ------------------------------------------------------------------------------ function part

#[derive(Clone, Debug, Serialize, Deserialize)]
pub struct FuncCase {
    pub key: i64,
    pub n: u64,
    pub sha1: bool,
}

fn key_strategy() -> BoxedStrategy<i64> {
    prop_oneof![
        4 => any::<i64>(),
        2 => (any::<u32>(), any::<u32>()).prop_map(|(h, l)| (((h as u64) << 32) | l as u64) as i64),
        1 => (0i64..100_000),
        1 => (-100_000i64..0),
        1 => prop_oneof![
            Just(i64::MIN), Just(i64::MAX), Just(-1i64), Just(0i64), Just(1i64 << 32), Just((1i64 << 32) - 1),
            Just(-(1i64 << 32)), Just(0x7fff_ffff_0000_0000u64 as i64), Just(0xffff_ffff_0000_0000u64 as i64),
            Just(0x0000_0000_ffff_ffffu64 as i64), Just(0x8000_0000_0000_0001u64 as i64)
        ],
    ]
    .boxed()
}

fn n_strategy() -> BoxedStrategy<u64> {
    prop_oneof![3 => 1u64..=128, 1 => 1u64..(1 << 20), 1 => Just(1u64 << 31), 1 => Just(usize::MAX as u64)].boxed()
}

#[cfg(feature = "lib")]
pub struct FuncPart;

#[cfg(feature = "lib")]
impl Part for FuncPart {
    type Case = FuncCase;
    fn prop(&self) -> &'static str {
        "C06"
    }
    fn name(&self) -> &'static str {
        "func"
    }
    fn wire(&self) -> bool {
        false
    }
    fn rule(&self) -> String {
        "(key:i64, n, function) generated with boundary keys; Sharder::new(n,f).shard(key) == PostgreSQL partition (or documented SHA1 rule); non-trivial = key negative or high word non-zero, or n not a power of two".into()
    }
    fn cases(&self, tier: Tier) -> u64 {
        tier.pick(8_000_000, 80_000_000)
    }
    fn strategy(&self, _tier: Tier) -> BoxedStrategy<FuncCase> {
        (key_strategy(), n_strategy(), prop::bool::weighted(0.2)).prop_map(|(key, n, sha1)| FuncCase { key, n, sha1 }).boxed()
    }
    fn run(&self, c: &FuncCase, _ctx: &mut WorkerCtx) -> Outcome {
        let mut o = Outcome::pass();
        let f = if c.sha1 { ShardingFunction::Sha1 } else { ShardingFunction::PgBigintHash };
        let n = c.n.max(1);
        let got = std::panic::catch_unwind(|| Sharder::new(n as usize, f).shard(c.key));
        let want = if c.sha1 { refhash::sha1_shard(c.key, n) } else { refhash::pg_partition(c.key, n) };
        o.nontrivial = c.key < 0 || (c.key as u64 >> 32) != 0 || !n.is_power_of_two();
        o.label(if c.sha1 { "sha1" } else { "pg_bigint" });
        if c.key < 0 {
            o.label("negative");
        }
        match got {
            Ok(g) if g as u64 == want => {}
            Ok(g) => o.fail(
                if c.sha1 { "sha1-mismatch" } else { "pg-hash-mismatch" },
                format!("key={} n={} sha1={} : pgcat shard {} != reference {}", c.key, n, c.sha1, g, want),
            ),
            Err(_) => o.fail("shard-panic", format!("key={} n={} sha1={} : Sharder::shard panicked", c.key, n, c.sha1)),
        }
        o
    }
}

// ------------------------------------------------------------------------------ routing paths

#[derive(Clone, Debug, Serialize, Deserialize)]
pub enum Path {
    /// SET SHARDING KEY TO k   (quoted?, lower-case?, trailing semicolon?)
    SetKey { quoted: bool, lower: bool, semi: bool },
    /// /* sharding_key: k */ comment with the pool's sharding_key_regex
    Comment { parse_msg: bool },
    /// literal equated with the automatic sharding key; `shape` selects the statement spelling
    Literal { shape: u8 },
    /// bound parameter: text or binary of the given width; uniform or per-parameter format codes
    Bind { binary: bool, width: u8, per_param_formats: bool, extra_param_first: bool },
}

#[derive(Clone, Debug, Serialize, Deserialize)]
pub struct PathCase {
    pub key: i64,
    pub shards: usize,
    pub sha1: bool,
    pub path: Path,
}

pub const LITERAL_SHAPES: u8 = 10;

fn literal_sql(shape: u8, k: i64) -> String {
    match shape {
        0 => format!("SELECT * FROM data WHERE id = {}", k),
        1 => format!("SELECT * FROM data WHERE data.id = {}", k),
        2 => format!("select * from DATA where ID = {}", k),
        3 => format!("SELECT * FROM public.data WHERE id = {} AND value = 'x'", k),
        4 => format!("SELECT * FROM data WHERE value = 'x' AND id = {}", k),
        5 => format!("SELECT * FROM other o INNER JOIN data ON data.id = {} WHERE o.x = 1", k),
        6 => format!("INSERT INTO data (id, value) VALUES ({}, 'v')", k),
        7 => format!("UPDATE data SET value = 'w' WHERE id = {}", k),
        8 => format!("DELETE FROM data WHERE id = {}", k),
        _ => format!("SELECT * FROM data WHERE \"id\" = {} ORDER BY id LIMIT 1", k),
    }
}

#[cfg(feature = "lib")]
fn settings(shards: usize, sha1: bool) -> PoolSettings {
    PoolSettings {
        shards,
        sharding_function: if sha1 { ShardingFunction::Sha1 } else { ShardingFunction::PgBigintHash },
        automatic_sharding_key: Some("data.id".to_string()),
        query_parser_enabled: true,
        query_parser_read_write_splitting: true,
        sharding_key_regex: Some(regex::Regex::new(r"/\* sharding_key: (\d+) \*/").unwrap()),
        ..Default::default()
    }
}

#[cfg(feature = "lib")]
pub struct PathPart;

#[cfg(feature = "lib")]
impl Part for PathPart {
    type Case = PathCase;
    fn prop(&self) -> &'static str {
        "C06"
    }
    fn name(&self) -> &'static str {
        "paths"
    }
    fn wire(&self) -> bool {
        false
    }
    fn rule(&self) -> String {
        "(key, shard count 1..=16, function, routing path) where path ∈ {SET SHARDING KEY spellings, sharding_key comment regex (Q and Parse), literal equated with automatic_sharding_key in 10 statement shapes, Bind parameter text/binary 2/4/8 with uniform or per-parameter format codes}; whenever the router accepts the key its shard() must equal the reference partition; non-trivial = path other than SET SHARDING KEY, or key above 2^32".into()
    }
    fn cases(&self, tier: Tier) -> u64 {
        tier.pick(1_200_000, 12_000_000)
    }
    fn strategy(&self, _tier: Tier) -> BoxedStrategy<PathCase> {
        let path = prop_oneof![
            (any::<bool>(), any::<bool>(), any::<bool>()).prop_map(|(quoted, lower, semi)| Path::SetKey { quoted, lower, semi }),
            any::<bool>().prop_map(|parse_msg| Path::Comment { parse_msg }),
            (0..LITERAL_SHAPES).prop_map(|shape| Path::Literal { shape }),
            (any::<bool>(), prop_oneof![Just(2u8), Just(4u8), Just(8u8)], any::<bool>(), any::<bool>()).prop_map(
                |(binary, width, per_param_formats, extra_param_first)| Path::Bind { binary, width, per_param_formats, extra_param_first }
            ),
        ];
        (key_strategy(), 1usize..=16, prop::bool::weighted(0.25), path)
            .prop_map(|(key, shards, sha1, path)| {
                // keys are adapted to what the path can spell (construction, not rejection)
                let key = match &path {
                    Path::SetKey { .. } | Path::Comment { .. } | Path::Literal { .. } => {
                        if key < 0 {
                            key.checked_neg().unwrap_or(i64::MAX)
                        } else {
                            key
                        }
                    }
                    Path::Bind { binary: true, width: 2, .. } => key as i16 as i64,
                    Path::Bind { binary: true, width: 4, .. } => key as i32 as i64,
                    _ => key,
                };
                PathCase { key, shards, sha1, path }
            })
            .boxed()
    }
    fn run(&self, c: &PathCase, _ctx: &mut WorkerCtx) -> Outcome {
        let mut o = Outcome::pass();
        let n = c.shards.max(1);
        let want = if c.sha1 { refhash::sha1_shard(c.key, n as u64) } else { refhash::pg_partition(c.key, n as u64) } as usize;
        let case = c.clone();
        let res = std::panic::catch_unwind(move || route(&case));
        o.nontrivial = !matches!(c.path, Path::SetKey { .. }) || c.key > u32::MAX as i64;
        let pname = match &c.path {
            Path::SetKey { .. } => "set_sharding_key",
            Path::Comment { .. } => "comment_regex",
            Path::Literal { .. } => "literal",
            Path::Bind { binary: true, .. } => "bind_binary",
            Path::Bind { .. } => "bind_text",
        };
        o.label(pname);
        match res {
            Err(_) => o.fail(&format!("path-panic:{}", pname), format!("router panicked on {:?}", c)),
            Ok(None) => {
                o.label("not_accepted");
                // these spellings are the documented ones; not recognising them at all is a failure
                let must = matches!(c.path, Path::SetKey { .. } | Path::Comment { .. })
                    || matches!(c.path, Path::Literal { shape } if shape <= 1 || shape == 6)
                    || matches!(c.path, Path::Bind { .. });
                if must {
                    o.fail(&format!("path-ignored:{}", pname), format!("router did not pick a shard for {:?}", c));
                }
            }
            Ok(Some(got)) => {
                o.label("accepted");
                if got != want {
                    o.fail(&format!("path-mismatch:{}", pname), format!("{:?}: router shard {} != reference {}", c, got, want));
                }
            }
        }
        o
    }
}

#[cfg(feature = "lib")]
/// Drive the real QueryRouter down one path; returns the shard it selected.
fn route(c: &PathCase) -> Option<usize> {
    let mut qr = QueryRouter::new();
    qr.update_pool_settings(&settings(c.shards.max(1), c.sha1));
    match &c.path {
        Path::SetKey { quoted, lower, semi } => {
            let mut s = String::from(if *lower { "set sharding key to " } else { "SET SHARDING KEY TO " });
            if *quoted {
                s.push_str(&format!("'{}'", c.key));
            } else {
                s.push_str(&c.key.to_string());
            }
            if *semi {
                s.push(';');
            }
            let m = BytesMut::from(&proto::query(&s)[..]);
            qr.try_execute_command(&m)?;
            qr.shard()
        }
        Path::Comment { parse_msg } => {
            let sql = format!("/* sharding_key: {} */ SELECT 1", c.key);
            let m = if *parse_msg { proto::parse("", &sql, &[]) } else { proto::query(&sql) };
            let m = BytesMut::from(&m[..]);
            let _ = qr.try_execute_command(&m);
            qr.shard()
        }
        Path::Literal { shape } => {
            let sql = literal_sql(*shape, c.key);
            let m = BytesMut::from(&proto::query(&sql)[..]);
            let ast = qr.parse(&m).ok()?;
            let _ = qr.infer(&ast);
            qr.shard()
        }
        Path::Bind { binary, width, per_param_formats, extra_param_first } => {
            let sql = if *extra_param_first {
                "SELECT * FROM data WHERE value = $1 AND id = $2"
            } else {
                "SELECT * FROM data WHERE id = $1"
            };
            let m = BytesMut::from(&proto::parse("", sql, &[])[..]);
            let ast = qr.parse(&m).ok()?;
            let _ = qr.infer(&ast);
            let keyval: Vec<u8> = if *binary {
                match width {
                    2 => (c.key as i16).to_be_bytes().to_vec(),
                    4 => (c.key as i32).to_be_bytes().to_vec(),
                    _ => c.key.to_be_bytes().to_vec(),
                }
            } else {
                c.key.to_string().into_bytes()
            };
            let kf: i16 = if *binary { 1 } else { 0 };
            let (formats, params): (Vec<i16>, Vec<Option<Vec<u8>>>) = if *extra_param_first {
                if *per_param_formats {
                    (vec![0, kf], vec![Some(b"abc".to_vec()), Some(keyval)])
                } else if *binary {
                    // uniform binary: the text-ish first parameter is just bytes
                    (vec![1], vec![Some(b"abc".to_vec()), Some(keyval)])
                } else {
                    (vec![], vec![Some(b"abc".to_vec()), Some(keyval)])
                }
            } else if *per_param_formats || *binary {
                (vec![kf], vec![Some(keyval)])
            } else {
                (vec![], vec![Some(keyval)])
            };
            let b = BytesMut::from(&proto::bind("", "", &formats, &params, &[])[..]);
            if qr.infer_shard_from_bind(&b) {
                qr.shard()
            } else {
                None
            }
        }
    }
}
