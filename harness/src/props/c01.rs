//! C01 — a server connection serves one client at a time, for a whole transaction.

use crate::engine::{Outcome, Part, PartReport, Tier, WorkerCtx};
use crate::mock::{EvKind, Event};
use crate::pgc::{self, PgcatConfig, ServerDef};
use crate::prog::{self, Exchange, Txn};
use crate::proto;
use crate::sqllex::Tag;
use crate::wire::{self, BackendSpec, Env};
use proptest::prelude::*;
use serde::{Deserialize, Serialize};
use std::collections::{BTreeMap, HashMap, HashSet};

pub fn check(tier: Tier, seed: u64, replay: (Option<&str>, Option<&str>)) -> Vec<PartReport> {
    crate::run_parts!(tier, seed, replay, [WirePart])
}

#[derive(Clone, Debug, Serialize, Deserialize)]
pub struct Case {
    pub pool_size: u8,
    pub session_mode: bool,
    pub cache: u8,
    pub workers: u8,
    pub replica: bool,
    pub clients: Vec<Vec<Txn>>,
    /// health-check fault: (client index, transaction index, delay ms) — before that transaction the
    /// primary's next health-check reply is delayed beyond healthcheck_timeout
    #[serde(default)]
    pub hc: Option<(u8, u8, u16)>,
}

pub struct WirePart;

pub fn case_strategy() -> BoxedStrategy<Case> {
    (
        1u8..=3,
        prop::bool::weighted(0.3),
        prop_oneof![2 => Just(0u8), 1 => Just(1u8), 1 => Just(8u8)],
        prop_oneof![Just(1u8), Just(2u8), Just(4u8)],
        prop::bool::weighted(0.3),
        prop::collection::vec(prop::collection::vec(prog::txn_strategy(), 1..4), 2..6),
        prop::option::weighted(0.3, (0u8..6, 0u8..3, 120u16..300)),
    )
        .prop_map(|(pool_size, session_mode, cache, workers, replica, clients, hc)| Case {
            pool_size,
            session_mode,
            cache: if session_mode { 0 } else { cache },
            workers,
            replica,
            hc: hc.map(|(c, t, d)| (c % clients.len() as u8, t % clients[(c as usize) % clients.len()].len() as u8, d)),
            clients,
        })
        .boxed()
}

impl Part for WirePart {
    type Case = Case;
    fn prop(&self) -> &'static str {
        "C01"
    }
    fn name(&self) -> &'static str {
        "wire"
    }
    fn wire(&self) -> bool {
        true
    }
    fn rule(&self) -> String {
        "2..5 concurrent scripted clients × 1..3 transactions each (autocommit, multi-statement, BEGIN..COMMIT/ROLLBACK with failing statement, extended batches with portal suspension, COPY IN/OUT/FAIL, COPY inside a block) against pool_size 1..3, transaction/session mode, statement cache 0/1/8, worker_threads 1/2/4, optional replica; server-side reply delays and client pre-delays create overlap. Non-trivial = two clients' exchanges overlapped in time AND one backend connection served >= 2 clients".into()
    }
    fn cases(&self, tier: Tier) -> u64 {
        tier.pick(1_600, 24_000)
    }
    fn strategy(&self, _tier: Tier) -> BoxedStrategy<Case> {
        case_strategy()
    }
    fn run(&self, c: &Case, ctx: &mut WorkerCtx) -> Outcome {
        wire::run_async(run_case(c, ctx))
    }
}

pub fn base_config(mocks: &[crate::mock::MockServer], pool_size: u8, session: bool, cache: u8, workers: u8) -> PgcatConfig {
    let mut cfg = PgcatConfig::new();
    cfg.set_general("worker_threads", &workers.to_string());
    cfg.set_general("connect_timeout", "60000");
    let servers: Vec<ServerDef> = mocks
        .iter()
        .enumerate()
        .map(|(i, m)| ServerDef { host: m.ip.clone(), port: m.port, role: if i == 0 { "primary".into() } else { "replica".into() } })
        .collect();
    let mut pool = pgc::simple_pool("db", "u", "pw", pool_size as u32, servers);
    pool.set("pool_mode", if session { "\"session\"" } else { "\"transaction\"" });
    if cache > 0 {
        pool.set("prepared_statements_cache_size", &cache.to_string());
    }
    cfg.pools.push(pool);
    cfg
}

pub struct ClientRun {
    pub id: u32,
    /// (transaction index, exchange)
    pub xs: Vec<(usize, Exchange)>,
    pub connect_error: Option<String>,
}

pub async fn run_clients(env: &Env, clients: &[Vec<Txn>], terminate: bool) -> Vec<ClientRun> {
    run_clients_hc(env, clients, terminate, None).await
}

pub async fn run_clients_hc(env: &Env, clients: &[Vec<Txn>], terminate: bool, hc: Option<(u8, u8, u16)>) -> Vec<ClientRun> {
    let own_delay = env.mocks[0].own_delay_handle();
    let t0 = std::time::Instant::now();
    let mut handles = vec![];
    for (i, prog) in clients.iter().enumerate() {
        let id = i as u32 + 1;
        let prog = prog.clone();
        let cli = env.client(id, "u", "db", "pw", &[]).await;
        let shared = env.shared.clone();
        let own_delay = own_delay.clone();
        handles.push(tokio::spawn(async move {
            let mut cli = match cli {
                Ok(c) => c,
                Err(e) => return ClientRun { id, xs: vec![], connect_error: Some(e) },
            };
            let mut xs = vec![];
            'outer: for (ti, txn) in prog.iter().enumerate() {
                if txn.pre_delay_ms > 0 {
                    tokio::time::sleep(std::time::Duration::from_millis(txn.pre_delay_ms as u64)).await;
                }
                if let Some((hc_c, hc_t, hc_d)) = hc {
                    if hc_c as usize == i && hc_t as usize == ti {
                        own_delay.store(hc_d as u64, std::sync::atomic::Ordering::SeqCst);
                        shared.ctl("slow next health check");
                    }
                }
                for r in &txn.reqs {
                    let x = prog::run_req(&mut cli, r, t0).await;
                    let bad = !matches!(x.end, crate::cli::ReadEnd::Ready(_));
                    xs.push((ti, x));
                    if bad {
                        break 'outer;
                    }
                }
            }
            if terminate {
                let _ = cli.send(&proto::terminate()).await;
            }
            cli.close();
            shared.ctl(&format!("close c{}", id));
            ClientRun { id, xs, connect_error: None }
        }));
    }
    let mut out = vec![];
    for h in handles {
        match h.await {
            Ok(r) => out.push(r),
            Err(_) => {}
        }
    }
    out
}

/// conn on which a tag was first received by a mock
pub fn tag_conns(log: &[Event]) -> HashMap<Tag, (usize, u64)> {
    let mut m = HashMap::new();
    for e in log {
        if let EvKind::Rx { tags, .. } = &e.kind {
            for t in tags {
                m.entry(*t).or_insert((e.server, e.conn));
            }
        }
    }
    m
}

/// tags whose messages (statement, CopyData, Sync of the batch) were seen on more than one backend connection
pub fn split_requests(log: &[Event]) -> Vec<(Tag, Vec<u64>)> {
    let mut m: BTreeMap<Tag, Vec<u64>> = BTreeMap::new();
    for e in log {
        if let EvKind::Rx { tags, .. } = &e.kind {
            for t in tags {
                let v = m.entry(*t).or_default();
                if !v.contains(&e.conn) {
                    v.push(e.conn);
                }
            }
        }
    }
    m.into_iter().filter(|(_, v)| v.len() > 1).collect()
}

/// I1: between consecutive tagged messages of different clients on one backend connection the
/// server must be idle (transaction mode) / the earlier client must have left (session mode).
pub fn check_exclusive(log: &[Event], session_mode: bool) -> Option<(String, String)> {
    let mut last: HashMap<u64, u32> = HashMap::new();
    let mut closed: HashSet<u32> = HashSet::new();
    for e in log {
        match &e.kind {
            EvKind::Ctl(s) => {
                if let Some(c) = s.strip_prefix("close c") {
                    if let Ok(c) = c.parse() {
                        closed.insert(c);
                    }
                }
            }
            EvKind::Rx { tags, snap, code, .. } => {
                let cl: Vec<u32> = tags.iter().map(|t| t.client).collect();
                for c in cl {
                    if let Some(prev) = last.get(&e.conn) {
                        if *prev != c {
                            if snap.txn != b'I' || snap.copy != 0 || snap.batch_open {
                                return Some((
                                    "interleaved-in-open-transaction".into(),
                                    format!(
                                        "backend conn {} received message '{}' of client c{} while client c{}'s work was open (txn={} copy={} batch_open={}) at seq {}",
                                        e.conn, *code as char, c, prev, snap.txn as char, snap.copy, snap.batch_open, e.seq
                                    ),
                                ));
                            }
                            if session_mode && !closed.contains(prev) {
                                return Some((
                                    "session-mode-connection-shared".into(),
                                    format!("session mode: backend conn {} used by c{} and then by c{} before c{} disconnected (seq {})", e.conn, prev, c, prev, e.seq),
                                ));
                            }
                        }
                    }
                    last.insert(e.conn, c);
                }
            }
            _ => {}
        }
    }
    None
}

/// The last backend connection that received a tagged message of `client` had work open at that point (transaction, COPY,
/// unsynced batch) - and afterwards, without any further message of that client, it received pooler-generated traffic
/// (ROLLBACK, RESET ..., Terminate), another client's message, or was closed.
pub fn abandoned_open_work(log: &[Event], client: u32) -> Option<String> {
    let mut last: Option<(usize, u64, u64)> = None; // (index, conn, seq)
    let mut open = false;
    for (i, e) in log.iter().enumerate() {
        if let EvKind::Rx { tags, snap, code, .. } = &e.kind {
            if tags.iter().any(|t| t.client == client) {
                last = Some((i, e.conn, e.seq));
                // state after the message is not in the snapshot; a statement that opens work is recognised by what follows:
                // the next event on this connection still sees it open
                open = snap.txn != b'I' || snap.copy != 0 || snap.batch_open || matches!(*code, b'P' | b'B' | b'E' | b'D');
            }
        }
    }
    let (idx, conn, seq) = last?;
    for e in log.iter().skip(idx + 1) {
        if e.conn != conn || e.server != log[idx].server {
            continue;
        }
        match &e.kind {
            EvKind::Rx { tags, snap, own, code, .. } => {
                let still_open = snap.txn != b'I' || snap.copy != 0 || snap.batch_open;
                if !(open || still_open) {
                    return None;
                }
                if still_open && (*own || *code == b'X' || tags.iter().any(|t| t.client != client)) {
                    return Some(format!(
                        "after its message at seq {} backend conn {} (txn={} copy={} batch_open={}) received '{}' that is not the client's ({})",
                        seq, conn, snap.txn as char, snap.copy, snap.batch_open, *code as char, if *own { "pooler-generated" } else { "another client's / untagged" }
                    ));
                }
                return None;
            }
            EvKind::Ctl(st) if st.starts_with("state-at-close") => {
                if !st.contains("txn=I copy=0 batch_open=false") {
                    open = true;
                }
            }
            EvKind::Close { .. } => {
                if open {
                    return Some(format!("after its message at seq {} backend conn {} was closed while the client's work was open and the client was still waiting", seq, conn));
                }
                return None;
            }
            _ => {}
        }
    }
    None
}

async fn run_case(c: &Case, ctx: &mut WorkerCtx) -> Outcome {
    let mut o = Outcome::pass();
    let mut specs = vec![BackendSpec::trust("127.0.0.1", "p0")];
    if c.replica {
        specs.push(BackendSpec::trust("127.0.0.2", "r0"));
    }
    let env = match Env::start(ctx, &specs, |m| {
        let mut cfg = base_config(m, c.pool_size, c.session_mode, c.cache, c.workers);
        if c.hc.is_some() {
            cfg.set_general("healthcheck_delay", "0");
            cfg.set_general("healthcheck_timeout", "60");
        }
        cfg
    })
    .await
    {
        Ok(e) => e,
        Err(e) => {
            o.inconclusive = Some(e);
            return o;
        }
    };
    let runs = run_clients_hc(&env, &c.clients, true, c.hc).await;
    let log = env.log();
    let stderr_tail = env.pg.stderr_tail(1500);
    env.finish().await;

    o.label(if c.session_mode { "session" } else { "transaction" });
    if c.cache > 0 {
        o.label("cache");
    }
    if c.hc.is_some() {
        o.label("healthcheck_fault");
    }
    let tconn = tag_conns(&log);
    // history invariants first: they do not depend on every client having been answered
    if let Some((sig, detail)) = check_exclusive(&log, c.session_mode) {
        o.fail(&sig, detail);
        return o;
    }
    if let Some((t, conns)) = split_requests(&log).into_iter().next() {
        o.fail(
            "request-split-across-connections",
            format!("messages of one request ({}) were received on several backend connections {:?}", t.short(), conns),
        );
        return o;
    }
    let mut intervals: Vec<(u32, u64, u64)> = vec![];
    for r in &runs {
        if let Some(e) = &r.connect_error {
            o.inconclusive = Some(format!("client c{} could not log in: {}", r.id, e));
            return o;
        }
        let mut txn_conn: BTreeMap<usize, HashSet<(usize, u64)>> = BTreeMap::new();
        let mut pool_error_txns: HashSet<usize> = HashSet::new();
        for (ti, x) in &r.xs {
            if x.reply.iter().any(|m| m.code == b'E' && proto::error_code(&m.body) == "58000") {
                // a pooler-generated error (e.g. failed health check) legitimately ends this transaction's affinity
                pool_error_txns.insert(if c.session_mode { 0 } else { *ti });
                o.label("pooler_error_reply");
            }
            intervals.push((r.id, x.t_send_us, x.t_done_us));
            o.sub_evaluations += 1;
            if !matches!(x.end, crate::cli::ReadEnd::Ready(_)) {
                // the client is still waiting for an answer: if the pooler meanwhile closed, cleaned up or handed on the backend
                // connection on which this client's transaction / COPY / batch is open, the rest of that transaction can no
                // longer be executed there
                if matches!(x.end, crate::cli::ReadEnd::Timeout) {
                    if let Some(d) = abandoned_open_work(&log, r.id) {
                        o.fail("connection-taken-away-during-open-work", format!("client c{} got no answer to {:?}: {}", r.id, x.tags, d));
                        return o;
                    }
                }
                o.inconclusive = Some(format!("c{} request {:?} ended {:?}; stderr: {}", r.id, x.tags, x.end, stderr_tail));
                return o;
            }
            // I3 / I4: own rows, in order, from the connection that logged the statement
            match prog::check_own_rows(x) {
                Err(e) => {
                    o.fail("foreign-or-misordered-result", format!("client c{}: {}", r.id, e));
                    return o;
                }
                Ok(conns) => {
                    for (i, (_label, conn)) in conns.iter().enumerate() {
                        let owner = x.row_tags.iter().map(|(t, _)| *t).find(|t| tconn.contains_key(t));
                        let _ = i;
                        if let Some(t) = owner {
                            // every row of this exchange must come from a connection that logged one of its tags
                            let ok = x.tags.iter().filter_map(|t| tconn.get(t)).any(|(_, cn)| cn == conn);
                            if !ok {
                                o.fail(
                                    "result-from-unassigned-connection",
                                    format!("client c{}: row claims backend conn {} but statement {} was logged on {:?}", r.id, conn, t.short(), tconn.get(&t)),
                                );
                                return o;
                            }
                        }
                    }
                }
            }
            for t in &x.tags {
                if let Some(cn) = tconn.get(t) {
                    txn_conn.entry(if c.session_mode { 0 } else { *ti }).or_default().insert(*cn);
                }
            }
        }
        // I2
        for (ti, conns) in &txn_conn {
            if conns.len() > 1 && !pool_error_txns.contains(ti) {
                o.fail(
                    "transaction-split-across-connections",
                    format!("client c{} transaction {} executed on several backend connections {:?}", r.id, ti, conns),
                );
                return o;
            }
        }
    }
    // non-triviality
    let mut overlap = false;
    'a: for (i, a) in intervals.iter().enumerate() {
        for b in intervals.iter().skip(i + 1) {
            if a.0 != b.0 && a.1 < b.2 && b.1 < a.2 {
                overlap = true;
                break 'a;
            }
        }
    }
    let mut per_conn: HashMap<u64, HashSet<u32>> = HashMap::new();
    for (t, (_, cn)) in &tconn {
        per_conn.entry(*cn).or_default().insert(t.client);
    }
    let shared_conn = per_conn.values().any(|s| s.len() >= 2);
    if overlap {
        o.label("overlap");
    }
    if shared_conn {
        o.label("conn_shared_by_clients");
    }
    if c.clients.len() > c.pool_size as usize {
        o.label("more_clients_than_pool");
    }
    o.nontrivial = overlap && shared_conn;
    o
}
