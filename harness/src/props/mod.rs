use crate::engine::{PartReport, Tier};

pub mod c01;
pub mod c02;
pub mod c03;
pub mod c04;
pub mod c05;
pub mod c05w;
pub mod c06;
pub mod c06w;
pub mod c07;
pub mod c08;
pub mod c09;
pub mod c10;
pub mod c11;
pub mod c11f;
pub mod c12;
pub mod c13;
pub mod c14;
pub mod c15;
pub mod c16;
pub mod c17;
pub mod c18;
pub mod c19;
pub mod c20;

pub const ALL: &[&str] = &["C01", "C02", "C03", "C04", "C05", "C06", "C07", "C08", "C09", "C10", "C11", "C12", "C13", "C14", "C15", "C16", "C17", "C18", "C19", "C20"];

/// replay: Some(path) -> re-run the stored case (its "part" field selects the part)
pub fn dispatch(prop: &str, tier: Tier, seed: u64, replay: Option<&str>) -> Option<Vec<PartReport>> {
    let part = replay.map(|p| replay_part_name(p));
    let r = (replay, part.as_deref());
    Some(match prop {
        "C01" => c01::check(tier, seed, r),
        "C02" => c02::check(tier, seed, r),
        "C03" => c03::check(tier, seed, r),
        "C04" => c04::check(tier, seed, r),
        "C05" => c05::check(tier, seed, r),
        "C06" => c06::check(tier, seed, r),
        "C07" => c07::check(tier, seed, r),
        "C08" => c08::check(tier, seed, r),
        "C09" => c09::check(tier, seed, r),
        "C10" => c10::check(tier, seed, r),
        "C11" => c11::check(tier, seed, r),
        "C12" => c12::check(tier, seed, r),
        "C13" => c13::check(tier, seed, r),
        "C14" => c14::check(tier, seed, r),
        "C15" => c15::check(tier, seed, r),
        "C16" => c16::check(tier, seed, r),
        "C17" => c17::check(tier, seed, r),
        "C18" => c18::check(tier, seed, r),
        "C19" => c19::check(tier, seed, r),
        "C20" => c20::check(tier, seed, r),
        _ => return None,
    })
}

fn replay_part_name(path: &str) -> String {
    std::fs::read_to_string(path)
        .ok()
        .and_then(|t| serde_json::from_str::<serde_json::Value>(&t).ok())
        .and_then(|v| v.get("part").and_then(|p| p.as_str().map(|s| s.to_string())))
        .unwrap_or_default()
}

/// Helper used by every property: run or replay a list of parts.
#[macro_export]
macro_rules! run_parts {
    ($tier:expr, $seed:expr, $replay:expr, [ $( $part:expr ),* $(,)? ]) => {{
        let mut out: Vec<$crate::engine::PartReport> = vec![];
        $(
            {
                let p = $part;
                match $replay {
                    (Some(path), Some(name)) => {
                        if name == $crate::engine::Part::name(&p) {
                            out.push($crate::engine::replay_part(&p, path, $tier, 3));
                        }
                    }
                    (Some(_), None) => {}
                    _ => out.push($crate::engine::run_part(&p, $tier, $seed)),
                }
            }
        )*
        out
    }};
}
