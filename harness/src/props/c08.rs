//! C08 — prepared-statement caching is invisible to clients.

use crate::cli::{Cli, ReadEnd};
use crate::engine::{Outcome, Part, PartReport, Tier, WorkerCtx};
use crate::mock::EvKind;
use crate::pgc::{self, PgcatConfig, ServerDef};
use crate::proto;
use crate::wire::{self, BackendSpec, Env};
use bytes::BytesMut;
#[cfg(feature = "lib")]
use pgcat::messages::{Bind, Parse};
use proptest::prelude::*;
use serde::{Deserialize, Serialize};
use std::collections::HashMap;

pub fn check(tier: Tier, seed: u64, replay: (Option<&str>, Option<&str>)) -> Vec<PartReport> {
    #[cfg(feature = "lib")]
    {
        crate::run_parts!(tier, seed, replay, [LibPart, WirePart])
    }
    #[cfg(not(feature = "lib"))]
    {
        let mut v = vec![crate::engine::lib_unavailable("C08", "lib")];
        v.extend(crate::run_parts!(tier, seed, replay, [WirePart]));
        v
    }
}

/// Statement pool: texts deliberately shared between clients, with pairs that are adjacent under
/// naive concatenation of (text, parameter count, parameter types) and pairs differing only in
/// whitespace inside a literal.
pub const STMTS: [(&str, &[i32]); 15] = [
    ("SELECT $1::int AS x1", &[]),
    ("SELECT $1::int AS x", &[0]),
    ("SELECT $1::int AS x", &[23]),
    ("SELECT $1::int AS x", &[25]),
    ("SELECT $1, $2 AS q", &[23, 25]),
    ("SELECT $1, $2 AS q2", &[3, 25]),
    ("SELECT $1, $2 AS q", &[2, 23]),
    ("SELECT 'x y' AS w", &[]),
    ("SELECT 'x  y' AS w", &[]),
    ("SELECT 'x\ny' AS w", &[]),
    ("SELECT 2 AS two /*@ rows=2 */", &[]),
    ("select 2 as two /*@ rows=2 */", &[]),
    ("INSERT INTO t (v) VALUES ($1)", &[23]),
    ("SELECT $1::int AS x1 ", &[]),
    // parses and binds fine, fails when executed (division by zero, constraint violation ...)
    ("SELECT 10 / $1::int AS boom /*@ err=0 */", &[23]),
];

// ------------------------------------------------------------------------------ lib part

#[derive(Clone, Debug, Serialize, Deserialize)]
pub struct LibCase {
    pub a_text: String,
    pub a_types: Vec<i32>,
    pub b_text: String,
    pub b_types: Vec<i32>,
    pub name: String,
    pub new_name: String,
    pub portal: String,
    pub params: Vec<Option<Vec<u8>>>,
}

#[cfg(feature = "lib")]
pub struct LibPart;

fn text_types() -> BoxedStrategy<(String, Vec<i32>)> {
    prop_oneof![
        3 => (0usize..STMTS.len()).prop_map(|i| (STMTS[i].0.to_string(), STMTS[i].1.to_vec())),
        // adjacent family: <base><digits> with types whose decimal rendering overlaps the text's tail
        4 => ("[a-z ]{0,6}", "[0-9,]{0,4}", prop::collection::vec(prop_oneof![0i32..30, Just(-1i32), 1000i32..1020], 0..4)).prop_map(|(b, tail, ty)| (format!("SELECT {}{}", b, tail), ty)),
        1 => ("\\PC{0,20}", prop::collection::vec(any::<i32>(), 0..3)).prop_map(|(s, ty)| (s.replace('\0', ""), ty)),
    ]
    .boxed()
}

#[cfg(feature = "lib")]
impl Part for LibPart {
    type Case = LibCase;
    fn prop(&self) -> &'static str {
        "C08"
    }
    fn name(&self) -> &'static str {
        "lib"
    }
    fn wire(&self) -> bool {
        false
    }
    fn rule(&self) -> String {
        "pairs of (query text, parameter-type list) from a family built to be adjacent under concatenation (text tails of digits and commas against type lists, whitespace-only differences, the harness' shared statement pool) plus statement/portal names and parameter values; oracles on the library codecs: Parse decode∘encode = identity, Parse::rewrite changes only the name, Bind::rename equals a reference splice (everything after the statement name byte-identical), and the cache key is injective: get_hash(a) == get_hash(b) => (text, types) equal. Non-trivial = the two statements differ".into()
    }
    fn cases(&self, tier: Tier) -> u64 {
        tier.pick(1_200_000, 20_000_000)
    }
    fn strategy(&self, _tier: Tier) -> BoxedStrategy<LibCase> {
        (text_types(), text_types(), "[a-zA-Z0-9_]{0,8}", "[A-Z_0-9]{1,12}", "[a-z0-9]{0,5}", prop::collection::vec(prop::option::weighted(0.8, prop::collection::vec(any::<u8>(), 0..12)), 0..4))
            .prop_map(|((a_text, a_types), (b_text, b_types), name, new_name, portal, params)| LibCase { a_text, a_types, b_text, b_types, name, new_name, portal, params })
            .boxed()
    }
    fn run(&self, c: &LibCase, _ctx: &mut WorkerCtx) -> Outcome {
        let mut o = Outcome::pass();
        let differ = c.a_text != c.b_text || c.a_types != c.b_types;
        o.nontrivial = differ;
        let r = std::panic::catch_unwind(|| {
            let wa = proto::parse(&c.name, &c.a_text, &c.a_types);
            let wb = proto::parse(&c.name, &c.b_text, &c.b_types);
            let pa: Parse = (&BytesMut::from(&wa[..])).try_into().map_err(|e| format!("decode a: {:?}", e))?;
            let pb: Parse = (&BytesMut::from(&wb[..])).try_into().map_err(|e| format!("decode b: {:?}", e))?;
            // round trip
            let back: BytesMut = (&pa).try_into().map_err(|e| format!("encode a: {:?}", e))?;
            if back[..] != wa[..] {
                return Err(format!("roundtrip:Parse decode/encode changed the message: {:?} -> {:?}", wa, back));
            }
            // the pool-level cache's rewritten copy differs from the original only in the name (reached through the cache's
            // own API rather than Parse::rewrite, whose signature is an implementation detail)
            let mut cache = pgcat::pool::PreparedStatementCache::new(4);
            let rw = cache.get_or_insert(&pa, pa.get_hash());
            let rwb: BytesMut = (&*rw).try_into().map_err(|e| format!("encode rewritten: {:?}", e))?;
            let expect = proto::parse(&rw.name, &c.a_text, &c.a_types);
            if rwb[..] != expect[..] {
                return Err(format!("rewrite:rewritten Parse differs from the original in more than the name: {:?} vs {:?}", rwb, expect));
            }
            // key injectivity
            if differ && pa.get_hash() == pb.get_hash() {
                return Err(format!("key-collision:different statements share a cache key: ({:?}, {:?}) and ({:?}, {:?})", c.a_text, c.a_types, c.b_text, c.b_types));
            }
            if !differ && pa.get_hash() != pb.get_hash() {
                return Err("key-unstable:identical statements hash differently".to_string());
            }
            // Bind::rename vs reference splice
            let formats: Vec<i16> = vec![0; c.params.len().min(1)];
            let wbind = proto::bind(&c.portal, &c.name, &formats, &c.params, &[0]);
            let renamed = Bind::rename(BytesMut::from(&wbind[..]), &c.new_name).map_err(|e| format!("rename: {:?}", e))?;
            let reference = proto::bind(&c.portal, &c.new_name, &formats, &c.params, &[0]);
            if renamed[..] != reference[..] {
                return Err(format!("bind-rename:renamed Bind differs from the reference splice: {:?} vs {:?}", renamed, reference));
            }
            let got_name = Bind::get_name(&BytesMut::from(&wbind[..])).map_err(|e| format!("get_name: {:?}", e))?;
            if got_name != c.name {
                return Err(format!("bind-name:Bind::get_name returned {:?} for {:?}", got_name, c.name));
            }
            Ok(())
        });
        match r {
            Err(_) => o.fail("codec-panic", format!("codec panicked on {:?}", c)),
            Ok(Err(e)) => {
                let (sig, detail) = e.split_once(':').map(|(a, b)| (a.to_string(), b.to_string())).unwrap_or(("codec".into(), e.clone()));
                o.fail(&sig, detail)
            }
            Ok(Ok(())) => {}
        }
        o
    }
}

// ------------------------------------------------------------------------------ wire part

#[derive(Clone, Debug, Serialize, Deserialize)]
pub enum Op {
    /// Parse(name idx, statement idx) ; Sync
    Parse(u8, u8),
    /// [Parse(name, stmt)] Bind(name) [Describe] Execute ; Sync — `parse_first` prepares in the same batch
    Exec { name: u8, parse_first: Option<u8>, describe: bool },
    /// two statements used in one batch: Bind/Execute name a, then name b
    Exec2(u8, u8),
    Close(u8),
    /// simple-protocol BEGIN / COMMIT (pins a server connection)
    Begin,
    Commit,
    /// SQL-level PREPARE through the simple protocol (makes the pooler DEALLOCATE ALL at check-in)
    SqlPrepare,
    /// a Parse the server rejects
    FailParse(u8),
    /// RELOAD with a changed pool_size: the pool (its statement cache and server connections) is rebuilt while the clients stay
    /// connected with their prepared names
    Reload,
    /// Parse(name) of a statement the server rejects at first (its table does not exist yet) + Sync, then the same text is
    /// prepared again under the same name, bound and executed: now it must work
    LateTable(u8),
    /// (two shards) SET SHARD TO k outside a transaction: the client's next batches run on the other backend
    SetShard(u8),
}

#[derive(Clone, Debug, Serialize, Deserialize)]
pub struct WireCase {
    pub cache: u8,
    pub pool_size: u8,
    pub clients: u8,
    pub workers: u8,
    /// (client, op)
    pub steps: Vec<(u8, Op)>,
    /// replay files of known findings set this to run the excluded shape
    #[serde(default)]
    pub allow_known: bool,
    /// two shards (a backend each): clients move between them with SET SHARD, their statements must follow
    #[serde(default)]
    pub two_shards: bool,
}

pub struct WirePart;

const NAMES: [&str; 3] = ["", "s1", "s2"];

impl Part for WirePart {
    type Case = WireCase;
    fn prop(&self) -> &'static str {
        "C08"
    }
    fn name(&self) -> &'static str {
        "wire"
    }
    fn wire(&self) -> bool {
        true
    }
    fn rule(&self) -> String {
        "1..3 clients, prepared_statements_cache_size 1/2/8, pool_size 1..2, one shard or two (a backend each, clients move with SET SHARD); histories of 3..16 operations over names {unnamed, s1, s2} shared by all clients and a pool of 14 statements shared between clients (adjacent text/type encodings, whitespace-only differences): Parse, Bind/Describe/Execute of a name (optionally preparing it in the same batch), two statements in one batch, Close, BEGIN/COMMIT to pin connections, SQL PREPARE (forces DEALLOCATE ALL at check-in), a Parse the server rejects, a statement the server rejects once (its table does not exist yet) and that is then prepared again and used, a statement that prepares fine and fails when executed, a RELOAD that rebuilds the pool under the connected clients. Model: per client name -> most recently prepared (text, types). Oracle per batch, from the mock backend's log: every Execute ran exactly the model's text and parameter types, the backend raised no duplicate/unknown-statement error, Parse/Bind bytes reaching the backend differ from the client's only in the statement name, the client got a complete reply. Non-trivial = two clients use one name for different statements, a statement is evicted, or a batch runs on a connection that has not seen its statement".into()
    }
    fn cases(&self, tier: Tier) -> u64 {
        tier.pick(1_600, 24_000)
    }
    fn strategy(&self, _tier: Tier) -> BoxedStrategy<WireCase> {
        let st = 0u8..STMTS.len() as u8;
        let op = prop_oneof![
            4 => (0u8..3, st.clone()).prop_map(|(n, s)| Op::Parse(n, s)),
            7 => (0u8..3, prop::option::weighted(0.4, st.clone()), any::<bool>()).prop_map(|(name, parse_first, describe)| Op::Exec { name, parse_first, describe }),
            2 => (1u8..3, 0u8..3).prop_map(|(a, b)| Op::Exec2(a, b)),
            2 => (0u8..3).prop_map(Op::Close),
            1 => Just(Op::Begin),
            1 => Just(Op::Commit),
            1 => Just(Op::SqlPrepare),
            1 => st.prop_map(Op::FailParse),
            1 => Just(Op::Reload),
            1 => (0u8..3).prop_map(Op::LateTable),
            2 => (0u8..2).prop_map(Op::SetShard),
        ];
        (prop_oneof![Just(1u8), Just(2u8), Just(8u8)], 1u8..=2, 1u8..=3, prop_oneof![Just(1u8), Just(2u8)], prop::collection::vec((0u8..3, op), 3..17), prop::bool::weighted(0.35))
            .prop_map(|(cache, pool_size, clients, workers, steps, two_shards)| WireCase { cache, pool_size, clients, workers, steps, allow_known: false, two_shards })
            .boxed()
    }
    fn run(&self, c: &WireCase, ctx: &mut WorkerCtx) -> Outcome {
        wire::run_async(run_wire(c, ctx))
    }
}

fn config(mocks: &[crate::mock::MockServer], c: &WireCase) -> PgcatConfig {
    let mut cfg = PgcatConfig::new();
    cfg.set_general("worker_threads", &c.workers.to_string());
    cfg.set_general("connect_timeout", "3000");
    let servers = vec![ServerDef { host: mocks[0].ip.clone(), port: mocks[0].port, role: "primary".into() }];
    let mut pool = pgc::simple_pool("db", "u", "pw", c.pool_size as u32, servers);
    pool.set("prepared_statements_cache_size", &c.cache.to_string());
    if c.two_shards {
        pool.shards.push(crate::pgc::ShardDef { id: "1".into(), database: "db_shard1".into(), servers: vec![ServerDef { host: mocks[1].ip.clone(), port: mocks[1].port, role: "primary".into() }], mirrors: vec![] });
    }
    cfg.pools.push(pool);
    cfg
}

type Stm = (String, Vec<i32>);

async fn run_wire(c: &WireCase, ctx: &mut WorkerCtx) -> Outcome {
    let mut o = Outcome::pass();
    let mut specs = vec![BackendSpec::trust("127.0.0.1", "p0")];
    if c.two_shards {
        specs.push(BackendSpec::trust("127.0.0.1", "p1"));
    }
    let env = match Env::start(ctx, &specs, |m| config(m, c)).await {
        Ok(e) => e,
        Err(e) => {
            o.inconclusive = Some(e);
            return o;
        }
    };
    let n = c.clients as usize;
    let mut clis: Vec<Cli> = vec![];
    for i in 0..n {
        match env.client(i as u32 + 1, "u", "db", "pw", &[]).await {
            Ok(cl) => clis.push(cl),
            Err(e) => {
                o.inconclusive = Some(format!("login: {}", e));
                env.finish().await;
                return o;
            }
        }
    }
    let mut names: Vec<HashMap<String, Stm>> = vec![HashMap::new(); n];
    let mut in_txn = vec![false; n];
    // shard each client has selected (0 until it says otherwise)
    let mut shard_of = vec![0usize; n];
    let mut reloads = 0u32;
    let mut distinct_stmts: std::collections::HashSet<Stm> = Default::default();
    let mut conn_seen: HashMap<u64, std::collections::HashSet<Stm>> = HashMap::new();
    let stm = |i: u8| -> Stm { (STMTS[i as usize % STMTS.len()].0.to_string(), STMTS[i as usize % STMTS.len()].1.to_vec()) };
    let param_for = |s: &Stm| -> Vec<Option<Vec<u8>>> { (0..s.0.matches('$').count().min(2)).map(|k| Some(format!("4{}", k).into_bytes())).collect() };

    'steps: for (si, (ci, op)) in c.steps.iter().enumerate() {
        let i = *ci as usize % n;
        o.sub_evaluations += 1;
        // (connections are pooled per shard)
        let busy = (0..n).filter(|j| in_txn[*j] && shard_of[*j] == shard_of[i]).count();
        // a batch needs a server: skip when every pooled connection is pinned by another client's transaction
        let needs_server = !in_txn[i];
        if needs_server && busy >= c.pool_size as usize {
            continue;
        }
        let mut bytes: Vec<u8> = vec![];
        // expected (text, types) of every Execute in this batch, and the client's Parse / Bind messages in order
        let mut expect_exec: Vec<Stm> = vec![];
        let mut batch_names_exceed = false;
        let mut sent_parses: Vec<Stm> = vec![];
        let mut sent_bind_rests: Vec<Vec<u8>> = vec![];
        let mut expect_error = false;
        // the batch's Execute raises an ordinary SQL error (the statement stays prepared, as on a direct connection)
        let mut exec_fails = false;
        let mut simple: Option<String> = None;
        match op {
            Op::Parse(nm, s) => {
                let name = NAMES[*nm as usize % 3];
                let st = stm(*s);
                bytes.extend_from_slice(&proto::parse(name, &st.0, &st.1));
                sent_parses.push(st.clone());
                names[i].insert(name.to_string(), st);
            }
            Op::Exec { name, parse_first, describe } => {
                let nm = NAMES[*name as usize % 3];
                if let Some(s) = parse_first {
                    let st = stm(*s);
                    bytes.extend_from_slice(&proto::parse(nm, &st.0, &st.1));
                    sent_parses.push(st.clone());
                    names[i].insert(nm.to_string(), st);
                }
                let st = match names[i].get(nm) {
                    Some(s) => s.clone(),
                    None => continue, // Bind of an unknown statement ends the client (C02/C11), not generated here
                };
                if st.0.contains("err=0") {
                    if in_txn[i] {
                        // an error inside a transaction block aborts it; everything after it would be refused
                        if parse_first.is_some() {
                            names[i].remove(nm);
                        }
                        continue;
                    }
                    exec_fails = true;
                }
                let b = proto::bind("", nm, &[0], &param_for(&st), &[0]);
                sent_bind_rests.push(proto::decode_bind(&b[5..]).map(|x| x.rest).unwrap_or_default());
                bytes.extend_from_slice(&b);
                if *describe {
                    bytes.extend_from_slice(&proto::describe(b'S', nm));
                }
                bytes.extend_from_slice(&proto::execute("", 0));
                expect_exec.push(st);
            }
            Op::Exec2(a, b) => {
                // known finding C08/batch-exceeds-server-cache: a batch that uses more distinct statements
                // than prepared_statements_cache_size evicts one of its own statements before it runs.
                // Excluded from generation by construction (counted); its replay runs separately.
                // (two *names* are enough: after an eviction from the pool-level cache pgcat gives a second name for the
                // same text and types a server-side statement of its own)
                let (na, nb) = (NAMES[*a as usize % 3], NAMES[*b as usize % 3]);
                if names[i].contains_key(na) && names[i].contains_key(nb) && na != nb {
                    batch_names_exceed = c.cache < 2;
                    if !c.allow_known && batch_names_exceed {
                        o.excluded_known += 1;
                        continue;
                    }
                }
                if [*a, *b].iter().any(|k| names[i].get(NAMES[*k as usize % 3]).map(|s| s.0.contains("err=0")).unwrap_or(false)) {
                    // the failing statement would make the server skip the rest of the batch
                    continue;
                }
                for nmi in [*a, *b] {
                    let nm = NAMES[nmi as usize % 3];
                    let st = match names[i].get(nm) {
                        Some(s) => s.clone(),
                        None => continue 'steps,
                    };
                    let bm = proto::bind(&format!("p{}", nmi), nm, &[0], &param_for(&st), &[0]);
                    sent_bind_rests.push(proto::decode_bind(&bm[5..]).map(|x| x.rest).unwrap_or_default());
                    bytes.extend_from_slice(&bm);
                    bytes.extend_from_slice(&proto::execute(&format!("p{}", nmi), 0));
                    expect_exec.push(st);
                }
            }
            Op::Close(nm) => {
                let name = NAMES[*nm as usize % 3];
                bytes.extend_from_slice(&proto::close(b'S', name));
                names[i].remove(name);
            }
            Op::SetShard(k) => {
                if !c.two_shards || in_txn[i] {
                    continue;
                }
                let (m, e) = clis[i].simple(&format!("SET SHARD TO '{}'", k % 2), wire::T_REPLY).await;
                if !matches!(e, ReadEnd::Ready(_)) || m.iter().any(|x| x.code == b'E') {
                    o.inconclusive = Some(format!("SET SHARD TO '{}' -> {:?} {:?}", k % 2, e, crate::cli::errors(&m)));
                    break;
                }
                if shard_of[i] != (*k as usize % 2) {
                    o.label("client_moved_to_other_shard");
                }
                shard_of[i] = *k as usize % 2;
                continue;
            }
            Op::Begin => {
                if in_txn[i] {
                    continue;
                }
                simple = Some("BEGIN".into());
                in_txn[i] = true;
            }
            Op::Commit => {
                if !in_txn[i] {
                    continue;
                }
                simple = Some("COMMIT".into());
                in_txn[i] = false;
            }
            Op::SqlPrepare => {
                if in_txn[i] {
                    continue;
                }
                simple = Some(format!("PREPARE sqlp_{} AS SELECT 1", si));
                o.label("sql_prepare");
            }
            Op::Reload => {
                // not while somebody is inside a transaction (its connection belongs to the old pool; fine for pgcat, but the
                // model's busy-connection bookkeeping below is about one pool)
                if in_txn.iter().any(|x| *x) {
                    continue;
                }
                reloads += 1;
                let mut cfg2 = config(&env.mocks, c);
                cfg2.pools[0].users[0].pool_size = c.pool_size as u32 + (reloads % 2) as u32;
                env.pg.write_config(&cfg2.to_toml(env.pg.port));
                let ok = match env.admin().await {
                    Ok(mut a) => {
                        let (m, e) = a.simple("RELOAD", wire::T_REPLY).await;
                        matches!(e, ReadEnd::Ready(_)) && !m.iter().any(|x| x.code == b'E')
                    }
                    Err(_) => false,
                };
                if !ok {
                    o.inconclusive = Some("RELOAD of a valid file failed".into());
                    break;
                }
                o.label("pool_rebuilt_by_reload");
                continue;
            }
            Op::LateTable(nm) => {
                if in_txn[i] {
                    continue;
                }
                let name = NAMES[*nm as usize % 3];
                let t = clis[i].tag();
                let sql = format!("{} SELECT v FROM late_table_{} WHERE id = $1 /*@ failonce */", t.render(), si);
                distinct_stmts.insert((sql.clone(), vec![23]));
                let mut b = proto::parse(name, &sql, &[23]);
                b.extend_from_slice(&proto::sync());
                clis[i].send(&b).await;
                let (m1, e1) = clis[i].read_until_ready(wire::T_REPLY).await;
                if !matches!(e1, ReadEnd::Ready(_)) {
                    o.fail("batch-not-answered", format!("step {}: the Parse the server rejects ended {:?}", si, e1));
                    break;
                }
                if !m1.iter().any(|x| x.code == b'E') {
                    // (the pooler answered the Parse by itself: nothing to build on)
                    names[i].remove(name);
                    continue;
                }
                names[i].remove(name);
                let mut b = proto::parse(name, &sql, &[23]);
                b.extend_from_slice(&proto::bind("", name, &[0], &[Some(b"1".to_vec())], &[0]));
                b.extend_from_slice(&proto::execute("", 0));
                b.extend_from_slice(&proto::sync());
                clis[i].send(&b).await;
                let (m2, e2) = clis[i].read_until_ready(wire::T_REPLY).await;
                o.label("statement_rejected_then_prepared_again");
                o.nontrivial = true;
                if !matches!(e2, ReadEnd::Ready(_)) || m2.iter().any(|x| x.code == b'E') || !m2.iter().any(|x| x.code == b'D') {
                    o.fail(
                        "statement-unusable-after-rejected-parse",
                        format!("step {}: client c{} prepared {:?} as {:?}; the server rejected it once (42P01). Prepared again and bound, it must run now, but the reply was {:?} errors {:?} ({:?})", si, i + 1, sql, name, m2.iter().map(|x| x.code as char).collect::<String>(), crate::cli::errors(&m2), e2),
                    );
                    break;
                }
                names[i].insert(name.to_string(), (sql, vec![23]));
                continue;
            }
            Op::FailParse(s) => {
                if in_txn[i] {
                    // an error inside a transaction block aborts it; everything after it would be refused
                    continue;
                }
                let st = stm(*s);
                // a different text (the directive), so the model simply never learns this name
                bytes.extend_from_slice(&proto::parse("s2", &format!("{} /*@ failparse */", st.0), &st.1));
                expect_error = true;
                // PostgreSQL keeps an existing s2 when the new Parse fails; the pooler's view of "most
                // recently prepared" after a failed Parse is not settled by the property: forget the name
                names[i].remove("s2");
            }
        }
        let before = env.shared.len();
        let (reply, end) = if let Some(sql) = &simple {
            clis[i].simple(sql, wire::T_REPLY).await
        } else {
            bytes.extend_from_slice(&proto::sync());
            clis[i].send(&bytes).await;
            clis[i].read_until_ready(wire::T_REPLY).await
        };
        if !matches!(end, ReadEnd::Ready(_)) {
            o.fail("batch-not-answered", format!("step {} ({:?}) of client c{} ended {:?}; reply so far {:?}; pgcat stderr {}", si, op, i + 1, end, reply.iter().map(|m| m.code as char).collect::<String>(), env.pg.stderr_tail(500)));
            break;
        }
        if simple.is_some() {
            continue;
        }
        let log = env.log();
        let new = &log[before.min(log.len())..];
        // ---- what the backend executed
        let execs: Vec<Stm> = new.iter().filter_map(|e| match &e.kind {
            EvKind::Exec { sql, types, stmt_name, .. } if !stmt_name.is_empty() => Some((sql.clone(), types.clone())),
            _ => None,
        }).collect();
        let errs: Vec<String> = new.iter().filter_map(|e| match &e.kind {
            EvKind::ProtoErr { code, .. } => Some(code.clone()),
            _ => None,
        }).collect();
        let client_errors = crate::cli::errors(&reply);
        if !expect_error {
            if let Some(code) = errs.iter().find(|c| ["42P05", "26000", "34000"].contains(&c.as_str())) {
                let distinct_in_batch: std::collections::HashSet<&Stm> = expect_exec.iter().collect();
                let exceeds = distinct_in_batch.len() > c.cache as usize || batch_names_exceed;
                o.fail(
                    &format!("backend-statement-error:{}{}", code, if exceeds { ":batch-exceeds-server-cache" } else { "" }),
                    format!("step {} ({:?}) of c{}: the backend raised {} (client saw {:?}); a direct connection would not have; steps {:?}", si, op, i + 1, code, client_errors, &c.steps[..=si]),
                );
                break;
            }
            if execs != expect_exec {
                let kind = if execs.len() != expect_exec.len() {
                    "count"
                } else if execs.iter().zip(&expect_exec).any(|(a, b)| a.0 != b.0) {
                    "text"
                } else {
                    "types"
                };
                o.fail(
                    &format!("executed-wrong-statement:{}", kind),
                    format!("step {} ({:?}) of c{}: the backend executed {:?} but the client's names resolve to {:?}; steps {:?}", si, op, i + 1, execs, expect_exec, &c.steps[..=si]),
                );
                break;
            }
            if !client_errors.is_empty() && !(exec_fails && client_errors.iter().all(|e| e.contains("directed error"))) {
                o.fail("client-got-error", format!("step {} ({:?}) of c{}: unexpected error {:?}", si, op, i + 1, client_errors));
                break;
            }
            // a complete reply: one CommandComplete/DataRow group per Execute
            let completes = reply.iter().filter(|m| m.code == b'C').count();
            if exec_fails {
                if !reply.iter().any(|m| m.code == b'E') {
                    o.fail("statement-error-not-relayed", format!("step {} ({:?}) of c{}: the failing statement's error did not reach the client (reply {:?})", si, op, i + 1, reply.iter().map(|m| m.code as char).collect::<String>()));
                    break;
                }
                o.label("execute_failed_with_sql_error");
            } else if completes != expect_exec.len() {
                o.fail("reply-incomplete", format!("step {} ({:?}) of c{}: {} CommandComplete for {} Executes (reply {:?})", si, op, i + 1, completes, expect_exec.len(), reply.iter().map(|m| m.code as char).collect::<String>()));
                break;
            }
        }
        // ---- rewritten messages differ only in the name
        let mut bind_i = 0;
        for e in new {
            if let EvKind::Rx { code, raw, .. } = &e.kind {
                if *code == b'P' {
                    if let Some(p) = proto::decode_parse(&raw[5..]) {
                        let known = distinct_stmts.contains(&(p.sql.clone(), p.types.clone())) || sent_parses.contains(&(p.sql.clone(), p.types.clone()));
                        if !known && !p.sql.contains("failparse") {
                            o.fail("rewritten-parse-differs", format!("the backend received Parse {:?} {:?} which no client sent", p.sql, p.types));
                            break 'steps;
                        }
                        conn_seen.entry(e.conn).or_default().insert((p.sql, p.types));
                    }
                } else if *code == b'B' {
                    if let Some(b) = proto::decode_bind(&raw[5..]) {
                        if let Some(orig) = sent_bind_rests.get(bind_i) {
                            if &b.rest != orig {
                                o.fail("rewritten-bind-differs", format!("Bind reached the backend with parameters/format codes {:?}, the client sent {:?}", b.rest, orig));
                                break 'steps;
                            }
                        }
                        bind_i += 1;
                    }
                }
            }
        }
        for s in &sent_parses {
            distinct_stmts.insert(s.clone());
        }
    }
    // non-triviality
    let shared_name_diff = (0..3).any(|k| {
        let vals: std::collections::HashSet<&Stm> = names.iter().filter_map(|m| m.get(NAMES[k])).collect();
        vals.len() >= 2
    });
    if shared_name_diff {
        o.label("one_name_different_statements");
    }
    if distinct_stmts.len() > c.cache as usize {
        o.label("eviction");
    }
    if conn_seen.len() >= 2 {
        o.label("several_server_connections");
    }
    o.nontrivial = shared_name_diff || distinct_stmts.len() > c.cache as usize || conn_seen.len() >= 2;
    for cl in clis.iter_mut() {
        cl.close();
    }
    env.finish().await;
    o
}
