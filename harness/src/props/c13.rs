//! C13 — the SET/SHOW routing commands behave as a small, exact language.

use crate::cli::ReadEnd;
use crate::engine::{Outcome, Part, PartReport, Tier, WorkerCtx};
use crate::mock::EvKind;
use crate::pgc::{PgcatConfig, PoolDef, ServerDef, ShardDef, UserDef};
use crate::proto;
use crate::refhash;
use crate::wire::{self, BackendSpec, Env};
use bytes::BytesMut;
#[cfg(feature = "lib")]
use pgcat::pool::PoolSettings;
#[cfg(feature = "lib")]
use pgcat::query_router::QueryRouter;
use proptest::prelude::*;
use serde::{Deserialize, Serialize};

pub fn check(tier: Tier, seed: u64, replay: (Option<&str>, Option<&str>)) -> Vec<PartReport> {
    #[cfg(feature = "lib")]
    {
        crate::run_parts!(tier, seed, replay, [LibPart, WirePart])
    }
    #[cfg(not(feature = "lib"))]
    {
        let mut v = vec![crate::engine::lib_unavailable("C13", "lib")];
        v.extend(crate::run_parts!(tier, seed, replay, [WirePart]));
        v
    }
}

#[derive(Clone, Copy, Debug, PartialEq, Eq, Serialize, Deserialize)]
pub enum Cmd {
    SetShardingKey,
    SetShard,
    ShowShard,
    SetServerRole,
    ShowServerRole,
    SetPrimaryReads,
    ShowPrimaryReads,
}

#[derive(Clone, Debug, PartialEq)]
pub enum Verdict {
    /// must be handled by the pooler; carries the command and its (unquoted) argument
    Must(Cmd, String),
    Forward,
    DontCare,
}

/// Hand-written three-valued recogniser (DESIGN Appendix A.6). No regular expressions.
pub fn classify(s: &str) -> Verdict {
    // only blanks may surround the command; a single trailing semicolon is allowed
    let mut t = s.trim_matches(' ');
    if let Some(x) = t.strip_suffix(';') {
        t = x.trim_end_matches(' ');
    }
    let odd_ws = t.chars().any(|c| c == '\t' || c == '\n' || c == '\r' || c == '\u{b}' || c == '\u{c}') || t.contains("  ") || s.trim_matches(' ') != s.trim();
    if odd_ws {
        // whitespace variants the documentation does not settle: a command after normalisation is
        // don't-care, anything else must be forwarded
        let norm: String = t.split_whitespace().collect::<Vec<_>>().join(" ");
        return match classify_tokens(&norm) {
            Verdict::Forward => Verdict::Forward,
            _ => Verdict::DontCare,
        };
    }
    classify_tokens(t)
}

fn unquote(v: &str) -> Option<(String, bool)> {
    // (inner, quoted) ; None when quotes are unbalanced
    let starts = v.starts_with('\'');
    let ends = v.ends_with('\'') && v.len() >= 2;
    match (starts, ends) {
        (true, true) => Some((v[1..v.len() - 1].to_string(), true)),
        (false, false) => {
            if v.contains('\'') {
                None
            } else {
                Some((v.to_string(), false))
            }
        }
        _ => None,
    }
}

fn classify_tokens(t: &str) -> Verdict {
    let toks: Vec<&str> = t.split(' ').collect();
    let up: Vec<String> = toks.iter().map(|x| x.to_ascii_uppercase()).collect();
    let upr: Vec<&str> = up.iter().map(|x| x.as_str()).collect();
    let digits = |x: &str| !x.is_empty() && x.len() <= 40 && x.bytes().all(|b| b.is_ascii_digit());
    match upr.as_slice() {
        ["SHOW", "SHARD"] => Verdict::Must(Cmd::ShowShard, String::new()),
        ["SHOW", "SERVER", "ROLE"] => Verdict::Must(Cmd::ShowServerRole, String::new()),
        ["SHOW", "PRIMARY", "READS"] => Verdict::Must(Cmd::ShowPrimaryReads, String::new()),
        ["SET", "SHARDING", "KEY", "TO", _] | ["SET", "SHARD", "TO", _] => {
            let key = upr[1] == "SHARDING";
            let v = toks[toks.len() - 1];
            match unquote(v) {
                None => {
                    // unbalanced quote around a number: not settled
                    let inner = v.trim_matches('\'');
                    if digits(inner) || (!key && inner.eq_ignore_ascii_case("ANY")) {
                        Verdict::DontCare
                    } else {
                        Verdict::Forward
                    }
                }
                Some((inner, _q)) => {
                    if inner.contains('\'') {
                        Verdict::Forward
                    } else if digits(&inner) {
                        Verdict::Must(if key { Cmd::SetShardingKey } else { Cmd::SetShard }, inner)
                    } else if !key && inner.eq_ignore_ascii_case("ANY") {
                        Verdict::DontCare
                    } else if inner.bytes().all(|b| b.is_ascii_digit()) && !inner.is_empty() {
                        // more than 40 digits: outside the bounded domain of the model
                        Verdict::DontCare
                    } else {
                        Verdict::Forward
                    }
                }
            }
        }
        ["SET", "SERVER", "ROLE", "TO", _] => {
            let v = toks[4];
            let vocab = |x: &str| ["primary", "replica", "any", "auto", "default"].contains(&x.to_ascii_lowercase().as_str());
            match unquote(v) {
                None => {
                    if vocab(v.trim_matches('\'')) {
                        Verdict::DontCare
                    } else {
                        Verdict::Forward
                    }
                }
                Some((inner, true)) if vocab(&inner) => Verdict::Must(Cmd::SetServerRole, inner.to_ascii_lowercase()),
                Some((inner, false)) if vocab(&inner) => Verdict::DontCare,
                _ => Verdict::Forward,
            }
        }
        ["SET", "PRIMARY", "READS", "TO", _] => {
            let v = toks[4];
            let vocab = |x: &str| ["on", "off", "default"].contains(&x.to_ascii_lowercase().as_str());
            match unquote(v) {
                None => {
                    if vocab(v.trim_matches('\'')) {
                        Verdict::DontCare
                    } else {
                        Verdict::Forward
                    }
                }
                Some((inner, _)) if vocab(&inner) => Verdict::Must(Cmd::SetPrimaryReads, inner.to_ascii_lowercase()),
                _ => Verdict::Forward,
            }
        }
        _ => Verdict::Forward,
    }
}

// ------------------------------------------------------------------------------- generator

#[derive(Clone, Debug, Serialize, Deserialize)]
pub struct Spell {
    pub cmd: u8,
    pub arg: String,
    pub quoted: bool,
    pub case: u8,
    pub lead: u8,
    pub trail: u8,
    pub semi: bool,
    pub mutation: u8,
}

pub const MUTATIONS: u8 = 26;

fn apply_case(s: &str, mode: u8) -> String {
    match mode % 4 {
        0 => s.to_string(),
        1 => s.to_ascii_lowercase(),
        2 => s.chars().enumerate().map(|(i, c)| if i % 2 == 0 { c.to_ascii_lowercase() } else { c.to_ascii_uppercase() }).collect(),
        _ => {
            let mut out = String::new();
            let mut up = true;
            for c in s.chars() {
                if c == ' ' {
                    up = !up;
                }
                out.push(if up { c.to_ascii_uppercase() } else { c.to_ascii_lowercase() });
            }
            out
        }
    }
}

pub fn render(sp: &Spell) -> String {
    let (head, has_arg) = match sp.cmd % 7 {
        0 => ("SET SHARDING KEY TO", true),
        1 => ("SET SHARD TO", true),
        2 => ("SHOW SHARD", false),
        3 => ("SET SERVER ROLE TO", true),
        4 => ("SHOW SERVER ROLE", false),
        5 => ("SET PRIMARY READS TO", true),
        _ => ("SHOW PRIMARY READS", false),
    };
    let head = apply_case(head, sp.case);
    let arg = if has_arg {
        // SET SERVER ROLE requires quotes in its documented form
        let q = sp.quoted || sp.cmd % 7 == 3;
        if q {
            format!(" '{}'", sp.arg)
        } else {
            format!(" {}", sp.arg)
        }
    } else {
        String::new()
    };
    let core = format!("{}{}", head, arg);
    let lead = " ".repeat(sp.lead as usize % 3);
    let trail = " ".repeat(sp.trail as usize % 3);
    let semi = if sp.semi { ";" } else { "" };
    let plain = format!("{}{}{}{}", lead, core, semi, trail);
    match sp.mutation % MUTATIONS {
        // 0..=7: no mutation (valid spellings dominate)
        0..=7 => plain,
        8 => format!("SELECT 1; {}", plain),
        9 => format!("{}; SELECT 1", core),
        10 => format!("/* {} */ SELECT 1", core),
        11 => format!("{} -- note", core),
        12 => format!("SELECT '{}'", core.replace('\'', "''")),
        13 => core.replacen(' ', "  ", 1),
        14 => core.replacen(' ', "\t", 1),
        15 => format!("{}\n", core),
        16 => {
            // drop the last token
            let mut v: Vec<&str> = core.split(' ').collect();
            v.pop();
            v.join(" ")
        }
        17 => format!("{} extra", core),
        18 => core.replace("SHARD", "SHARDS").replace("shard", "shards").replace("ROLE", "ROLES").replace("READS", "READ"),
        19 => format!("{};;", core),
        20 => core.replace('\'', "\""),
        21 => format!("x{}", core),
        // multi-line queries in which one whole line looks like a command
        22 => format!("SELECT 1;\n{};\nSELECT 2", core),
        23 => format!("{}\nSELECT 1", core),
        24 => format!("SELECT 1\n{}", core),
        _ => format!("INSERT INTO t VALUES (1);\r\n{}", plain),
    }
}

fn arg_strategy() -> BoxedStrategy<String> {
    prop_oneof![
        4 => (0u64..10).prop_map(|n| n.to_string()),
        3 => "[0-9]{1,19}",
        2 => "[0-9]{20,40}",
        1 => Just("9223372036854775807".to_string()),
        1 => Just("9223372036854775808".to_string()),
        1 => Just("18446744073709551616".to_string()),
        4 => prop_oneof![Just("primary"), Just("replica"), Just("any"), Just("auto"), Just("default"), Just("PRIMARY"), Just("Replica")].prop_map(|s| s.to_string()),
        4 => prop_oneof![Just("on"), Just("off"), Just("default"), Just("ON"), Just("Off")].prop_map(|s| s.to_string()),
        2 => prop_oneof![Just("master"), Just("abc"), Just("-1"), Just("1.5"), Just("maybe"), Just("ANY"), Just("1 2"), Just("'1"), Just("1'"), Just(""), Just("0x10"), Just("١٢")].prop_map(|s| s.to_string()),
    ]
    .boxed()
}

pub fn spell_strategy() -> BoxedStrategy<Spell> {
    (0u8..7, arg_strategy(), any::<bool>(), 0u8..4, 0u8..3, 0u8..3, any::<bool>(), 0u8..MUTATIONS)
        .prop_map(|(cmd, arg, quoted, case, lead, trail, semi, mutation)| {
            // bias arguments towards the command's own vocabulary (construction, not rejection)
            let arg = match cmd {
                3 if arg.chars().all(|c| c.is_ascii_digit()) && !arg.is_empty() => ["primary", "replica", "any", "auto", "default"][arg.len() % 5].to_string(),
                5 if arg.chars().all(|c| c.is_ascii_digit()) && !arg.is_empty() => ["on", "off", "default"][arg.len() % 3].to_string(),
                _ => arg,
            };
            Spell { cmd, arg, quoted, case, lead, trail, semi, mutation }
        })
        .boxed()
}

// ------------------------------------------------------------------------------- state model

#[derive(Clone, Debug)]
pub struct State {
    pub shards: usize,
    pub sha1: bool,
    pub shard: Option<usize>,
    /// None = not determined by the model (initial / after 'default')
    pub role: Option<&'static str>,
    pub primary_reads: bool,
    pub pool_primary_reads: bool,
}

impl State {
    /// Apply a must-handle command; returns Some(expected SHOW value) for SHOW commands whose value
    /// the model determines.
    pub fn apply(&mut self, cmd: Cmd, arg: &str) -> Option<String> {
        match cmd {
            Cmd::SetShardingKey => {
                if let Ok(k) = arg.parse::<i64>() {
                    let n = self.shards as u64;
                    self.shard = Some((if self.sha1 { refhash::sha1_shard(k, n) } else { refhash::pg_partition(k, n) }) as usize);
                }
                None
            }
            Cmd::SetShard => {
                if let Ok(n) = arg.parse::<usize>() {
                    if n < self.shards {
                        self.shard = Some(n);
                    }
                }
                None
            }
            Cmd::ShowShard => Some(self.shard.map(|s| s.to_string()).unwrap_or_else(|| "unset".into())),
            Cmd::SetServerRole => {
                self.role = match arg {
                    "primary" => Some("primary"),
                    "replica" => Some("replica"),
                    "any" => Some("any"),
                    "auto" => Some("auto"),
                    _ => None,
                };
                None
            }
            Cmd::ShowServerRole => self.role.map(|r| r.to_string()),
            Cmd::SetPrimaryReads => {
                self.primary_reads = match arg {
                    "on" => true,
                    "off" => false,
                    _ => self.pool_primary_reads,
                };
                None
            }
            Cmd::ShowPrimaryReads => Some(if self.primary_reads { "on".into() } else { "off".into() }),
        }
    }
}

fn signature_class(sp: &Spell, v: &Verdict) -> String {
    let m = sp.mutation % MUTATIONS;
    let long = sp.arg.len() > 19 && sp.arg.chars().all(|c| c.is_ascii_digit());
    format!("cmd{}:{}:{}", sp.cmd % 7, if m <= 7 { "plain".to_string() } else { format!("mut{}", m) }, match v {
        Verdict::Must(..) if long => "must-long-number",
        Verdict::Must(..) => "must",
        Verdict::Forward => "forward",
        Verdict::DontCare => "dontcare",
    })
}

// ------------------------------------------------------------------------------- lib part

#[derive(Clone, Debug, Serialize, Deserialize)]
pub struct Case {
    pub shards: u8,
    pub sha1: bool,
    pub primary_reads: bool,
    pub cmds: Vec<Spell>,
}

fn case_strategy(max: usize) -> BoxedStrategy<Case> {
    (1u8..=8, prop::bool::weighted(0.2), any::<bool>(), prop::collection::vec(spell_strategy(), 1..max))
        .prop_map(|(shards, sha1, primary_reads, cmds)| Case { shards, sha1, primary_reads, cmds })
        .boxed()
}

#[cfg(feature = "lib")]
pub struct LibPart;

#[cfg(feature = "lib")]
impl Part for LibPart {
    type Case = Case;
    fn prop(&self) -> &'static str {
        "C13"
    }
    fn name(&self) -> &'static str {
        "lib"
    }
    fn wire(&self) -> bool {
        false
    }
    fn rule(&self) -> String {
        "sequences of 1..10 strings from the command grammar: 7 commands × case × leading/trailing blanks × optional quotes × optional ';' × arguments (1..40 digits, i64/u64 boundaries, role and on/off vocabulary in several cases, junk) × 18 near-miss mutations (prefix/suffix statement, comment, embedded in a literal, double space, tab, newline, dropped/extra token, misspelt keyword, ';;', double quotes, glued prefix, multi-line queries with a command on a line of its own); a hand-written three-valued recogniser says must-handle / must-forward / don't-care and a state machine predicts SHOW; oracle on QueryRouter::try_execute_command: agreement on the first two classes, no panic, SHOW value equals the model. Non-trivial = near miss, number longer than 19 digits, or a SHOW after >= 2 SETs".into()
    }
    fn cases(&self, tier: Tier) -> u64 {
        tier.pick(600_000, 12_000_000)
    }
    fn strategy(&self, _tier: Tier) -> BoxedStrategy<Case> {
        case_strategy(11)
    }
    fn run(&self, c: &Case, _ctx: &mut WorkerCtx) -> Outcome {
        let mut o = Outcome::pass();
        let mut qr = QueryRouter::new();
        let settings = PoolSettings {
            shards: c.shards as usize,
            sharding_function: if c.sha1 { pgcat::sharding::ShardingFunction::Sha1 } else { pgcat::sharding::ShardingFunction::PgBigintHash },
            primary_reads_enabled: c.primary_reads,
            ..Default::default()
        };
        qr.update_pool_settings(&settings);
        qr.set_default_role();
        let mut st = State { shards: c.shards as usize, sha1: c.sha1, shard: None, role: None, primary_reads: c.primary_reads, pool_primary_reads: c.primary_reads };
        let mut sets = 0;
        for sp in &c.cmds {
            o.sub_evaluations += 1;
            let s = render(sp);
            let v = classify(&s);
            let m = BytesMut::from(&proto::query(&s)[..]);
            let r = std::panic::catch_unwind(std::panic::AssertUnwindSafe(|| qr.try_execute_command(&m)));
            let class = signature_class(sp, &v);
            if sp.mutation % MUTATIONS > 7 || (sp.arg.len() > 19 && sp.arg.chars().all(|c| c.is_ascii_digit())) {
                o.nontrivial = true;
            }
            match (&v, r) {
                (Verdict::Must(..), Err(_)) => {
                    o.fail(&format!("command-panics:{}", class), format!("{:?} is a documented command; try_execute_command panicked", s));
                    return o;
                }
                (_, Err(_)) => {
                    o.fail(&format!("router-panics:{}", class), format!("try_execute_command panicked on {:?}", s));
                    return o;
                }
                (Verdict::Must(cmd, arg), Ok(res)) => match res {
                    None => {
                        o.fail(&format!("command-not-handled:{}", class), format!("{:?} is a documented command but was not handled", s));
                        return o;
                    }
                    Some((_c, value)) => {
                        // SET SHARD range checking lives in the client; stay inside the range here
                        if *cmd == Cmd::SetShard {
                            if let Ok(n) = arg.parse::<usize>() {
                                if n >= c.shards as usize {
                                    qr.set_shard(st.shard);
                                }
                            }
                        }
                        if matches!(cmd, Cmd::SetShard | Cmd::SetShardingKey | Cmd::SetServerRole | Cmd::SetPrimaryReads) {
                            sets += 1;
                        }
                        if let Some(want) = st.apply(*cmd, arg) {
                            if sets >= 2 {
                                o.nontrivial = true;
                            }
                            if want != value {
                                o.fail(&format!("show-value-wrong:cmd{}", sp.cmd % 7), format!("after the preceding SETs {:?} must report {:?}, got {:?} (sequence {:?})", s, want, value, c.cmds.iter().map(render).collect::<Vec<_>>()));
                                return o;
                            }
                        }
                    }
                },
                (Verdict::Forward, Ok(Some(_))) => {
                    o.fail(&format!("non-command-handled:{}", class), format!("{:?} is not a command but was handled by the pooler", s));
                    return o;
                }
                (Verdict::Forward, Ok(None)) => {
                    o.label("forward");
                }
                (Verdict::DontCare, Ok(res)) => {
                    o.label("dontcare");
                    // whatever the pooler did with it, the model can no longer predict SHOW values it may have changed
                    if res.is_some() {
                        st.shard = qr.shard();
                        st.role = None;
                        st.primary_reads = qr.primary_reads_enabled();
                    }
                }
            }
            if let Verdict::Must(..) = v {
                o.label("must");
            }
        }
        o
    }
}

// ------------------------------------------------------------------------------- wire part

pub struct WirePart;

impl Part for WirePart {
    type Case = Case;
    fn prop(&self) -> &'static str {
        "C13"
    }
    fn name(&self) -> &'static str {
        "wire"
    }
    fn wire(&self) -> bool {
        true
    }
    fn rule(&self) -> String {
        "the same generated command sequences sent as simple queries to the real binary (1..8 shards of mock backends): a must-handle string gets a well-formed reply ending in ReadyForQuery and nothing is received by any backend; a must-forward string arrives byte-identical at exactly one backend; SHOW values equal the model (including out-of-range SET SHARD leaving the selection). Non-trivial as in the lib part".into()
    }
    fn cases(&self, tier: Tier) -> u64 {
        tier.pick(1_200, 16_000)
    }
    fn strategy(&self, _tier: Tier) -> BoxedStrategy<Case> {
        case_strategy(9)
    }
    fn run(&self, c: &Case, ctx: &mut WorkerCtx) -> Outcome {
        wire::run_async(run_wire(c, ctx))
    }
}

fn config(mocks: &[crate::mock::MockServer], c: &Case) -> PgcatConfig {
    let mut cfg = PgcatConfig::new();
    let mut shards = vec![];
    for s in 0..c.shards as usize {
        // one server of each role per shard, so that a pinned role never leaves a forwarded query without a server
        shards.push(ShardDef {
            id: s.to_string(),
            database: format!("shard{}", s),
            servers: vec![
                ServerDef { host: mocks[2 * s].ip.clone(), port: mocks[2 * s].port, role: "primary".into() },
                ServerDef { host: mocks[2 * s + 1].ip.clone(), port: mocks[2 * s + 1].port, role: "replica".into() },
            ],
            mirrors: vec![],
        });
    }
    cfg.pools.push(PoolDef {
        name: "db".into(),
        settings: vec![
            ("pool_mode".into(), "\"transaction\"".into()),
            ("primary_reads_enabled".into(), if c.primary_reads { "true".into() } else { "false".into() }),
            ("sharding_function".into(), if c.sha1 { "\"sha1\"".into() } else { "\"pg_bigint_hash\"".into() }),
        ],
        users: vec![UserDef { key: "0".into(), username: "u".into(), password: Some("pw".into()), pool_size: 2, extra: vec![] }],
        shards,
        raw_tail: String::new(),
    });
    cfg
}

async fn run_wire(c: &Case, ctx: &mut WorkerCtx) -> Outcome {
    let mut o = Outcome::pass();
    let mut specs: Vec<BackendSpec> = vec![];
    for s in 0..c.shards {
        specs.push(BackendSpec::trust("127.0.0.1", &format!("s{}p", s)));
        specs.push(BackendSpec::trust("127.0.0.2", &format!("s{}r", s)));
    }
    let env = match Env::start(ctx, &specs, |m| config(m, c)).await {
        Ok(e) => e,
        Err(e) => {
            o.inconclusive = Some(e);
            return o;
        }
    };
    let mut cli = match env.client(1, "u", "db", "pw", &[]).await {
        Ok(c) => c,
        Err(e) => {
            o.inconclusive = Some(format!("login: {}", e));
            env.finish().await;
            return o;
        }
    };
    let mut st = State { shards: c.shards as usize, sha1: c.sha1, shard: None, role: None, primary_reads: c.primary_reads, pool_primary_reads: c.primary_reads };
    let mut sets = 0;
    for sp in &c.cmds {
        o.sub_evaluations += 1;
        let s = render(sp);
        if s.contains('\0') {
            continue;
        }
        let v = classify(&s);
        let class = signature_class(sp, &v);
        if sp.mutation % MUTATIONS > 7 || (sp.arg.len() > 19 && sp.arg.chars().all(|c| c.is_ascii_digit())) {
            o.nontrivial = true;
        }
        let before = env.shared.len();
        if !cli.is_open() {
            break;
        }
        let (m, e) = cli.simple(&s, wire::T_REPLY).await;
        let log = env.log();
        let new_q: Vec<&crate::mock::Event> = log[before.min(log.len())..].iter().filter(|ev| matches!(&ev.kind, EvKind::Rx { code: b'Q', own: false, .. })).collect();
        match &v {
            Verdict::Must(cmd, arg) => {
                if !wire::well_formed_ready(&m, &e) {
                    o.fail(&format!("command-without-reply:{}", class), format!("{:?} is a documented command; reply ended {:?} with messages {:?}", s, e, m.iter().map(|x| x.code as char).collect::<String>()));
                    break;
                }
                if !new_q.is_empty() {
                    o.fail(&format!("command-forwarded:{}", class), format!("{:?} is a documented command but a backend received {:?}", s, new_q.len()));
                    break;
                }
                if matches!(cmd, Cmd::SetShard | Cmd::SetShardingKey | Cmd::SetServerRole | Cmd::SetPrimaryReads) {
                    sets += 1;
                }
                // out-of-range SET SHARD must be refused
                if *cmd == Cmd::SetShard {
                    if let Ok(n) = arg.parse::<usize>() {
                        let refused = m.iter().any(|x| x.code == b'E');
                        if (n >= c.shards as usize) != refused {
                            o.fail("set-shard-range-check", format!("{:?} with {} shards: refused={}", s, c.shards, refused));
                            break;
                        }
                    }
                }
                if let Some(want) = st.apply(*cmd, arg) {
                    if sets >= 2 {
                        o.nontrivial = true;
                    }
                    let rows = crate::cli::row_texts(&m);
                    if rows.len() != 1 || rows[0] != want {
                        o.fail(&format!("show-value-wrong:cmd{}", sp.cmd % 7), format!("{:?} must report {:?}, got {:?} (sequence {:?})", s, want, rows, c.cmds.iter().map(render).collect::<Vec<_>>()));
                        break;
                    }
                }
                o.label("must");
            }
            Verdict::Forward => {
                o.label("forward");
                if new_q.len() != 1 {
                    o.fail(&format!("non-command-not-forwarded:{}", class), format!("{:?} is not a command but {} backends received a query (reply end {:?}, errors {:?})", s, new_q.len(), e, crate::cli::errors(&m)));
                    break;
                }
                if let EvKind::Rx { raw, .. } = &new_q[0].kind {
                    if raw != &proto::query(&s) {
                        o.fail(&format!("forwarded-modified:{}", class), format!("{:?} reached the backend as {:?}", s, String::from_utf8_lossy(raw)));
                        break;
                    }
                }
                if !matches!(e, ReadEnd::Ready(_)) {
                    o.inconclusive = Some(format!("forwarded {:?} ended {:?}", s, e));
                    break;
                }
            }
            Verdict::DontCare => {
                o.label("dontcare");
                if !matches!(e, ReadEnd::Ready(_)) {
                    // a don't-care spelling may do anything to its own sender, but we cannot go on
                    break;
                }
                if new_q.is_empty() {
                    // handled by the pooler in some way: resynchronise the model through SHOW
                    let (ms, es) = cli.simple("SHOW SHARD", wire::T_REPLY).await;
                    if !matches!(es, ReadEnd::Ready(_)) {
                        break;
                    }
                    let r = crate::cli::row_texts(&ms);
                    st.shard = r.first().and_then(|x| x.parse().ok());
                    let (mp, ep) = cli.simple("SHOW PRIMARY READS", wire::T_REPLY).await;
                    if !matches!(ep, ReadEnd::Ready(_)) {
                        break;
                    }
                    st.primary_reads = crate::cli::row_texts(&mp).first().map(|x| x == "on").unwrap_or(st.primary_reads);
                    st.role = None;
                }
            }
        }
    }
    env.finish().await;
    o
}
