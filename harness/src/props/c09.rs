//! C09 — no access without valid credentials.

use crate::cli::{Cli, ReadEnd};
use crate::engine::{Outcome, Part, PartReport, Tier, WorkerCtx};
use crate::mock::EvKind;
use crate::pgc::{self, PgcatConfig, PoolDef, ServerDef, ShardDef, UserDef};
use crate::proto;
use crate::wire::{self, BackendSpec, Env};
use proptest::prelude::*;
use serde::{Deserialize, Serialize};
use std::collections::HashMap;
use std::time::Duration;

pub fn check(tier: Tier, seed: u64, replay: (Option<&str>, Option<&str>)) -> Vec<PartReport> {
    crate::run_parts!(tier, seed, replay, [WirePart])
}

/// Users known to the harness: (name, password, kind)
/// kind: 0 = cleartext password in the config, 1 = auth_query (hash served by the backend), 2 = trust
const USERS: [(&str, &str, u8); 4] = [("alice", "alice_pw", 0), ("bob", "bob_pw", 0), ("carol", "carol_pw", 1), ("trusty", "unused", 2)];

#[derive(Clone, Debug, Serialize, Deserialize, PartialEq)]
pub enum Resp {
    Correct,
    WrongPassword,
    /// correct for the salt of an earlier connection of this session
    ReplayedSalt,
    /// the correct answer cut after k bytes
    Truncated(u8),
    OtherUsersPassword,
    Md5Garbage,
    Cleartext,
    /// a different message instead of PasswordMessage (code)
    WrongMessage(u8),
    /// 'p' with a bogus length field
    BadLength(i32),
    ExtraAfterNul,
    /// the previous (rotated-away) password
    OldPassword,
    /// close without answering
    Nothing,
}

#[derive(Clone, Debug, Serialize, Deserialize)]
pub enum Step {
    /// login attempt: user index (4 = unconfigured user, 5 = admin user), database (0 = db, 1 = unconfigured, 2 = admin db)
    Login { user: u8, database: u8, resp: Resp },
    /// the backend's password for carol changes (auth_query now returns the new hash)
    Rotate,
    /// the configuration file changes and is reloaded through the admin console: 0 = alice's password is replaced, 1 = trusty
    /// loses auth_type trust and gets a password, 2 = bob is removed from the pool, 3 = nothing changes
    Reload(u8),
}

#[derive(Clone, Debug, Serialize, Deserialize)]
pub struct Case {
    pub tls: bool,
    pub admin_trust: bool,
    /// the backend cannot serve the auth_query user's hash while the pool is created (it can from the first login on), so
    /// pgcat starts without a stored hash and has to fetch it during a login
    #[serde(default)]
    pub late_hash: bool,
    pub steps: Vec<Step>,
}

pub struct WirePart;

fn resp_strategy() -> BoxedStrategy<Resp> {
    prop_oneof![
        5 => Just(Resp::Correct),
        3 => Just(Resp::WrongPassword),
        2 => Just(Resp::ReplayedSalt),
        3 => (0u8..36).prop_map(Resp::Truncated),
        2 => Just(Resp::OtherUsersPassword),
        1 => Just(Resp::Md5Garbage),
        1 => Just(Resp::Cleartext),
        1 => prop_oneof![Just(b'Q'), Just(b'X'), Just(b'S'), Just(b'R')].prop_map(Resp::WrongMessage),
        1 => prop_oneof![Just(0i32), Just(3i32), Just(4i32), Just(-1i32), Just(100_000i32)].prop_map(Resp::BadLength),
        1 => Just(Resp::ExtraAfterNul),
        2 => Just(Resp::OldPassword),
        1 => Just(Resp::Nothing),
    ]
    .boxed()
}

impl Part for WirePart {
    type Case = Case;
    fn prop(&self) -> &'static str {
        "C09"
    }
    fn name(&self) -> &'static str {
        "wire"
    }
    fn wire(&self) -> bool {
        true
    }
    fn rule(&self) -> String {
        "sessions of 1..7 login attempts against the real binary: user ∈ {two cleartext-password users, one auth_query user whose hash the mock backend serves, one trust user, an unconfigured user, the admin user} × database ∈ {pool, unconfigured, admin} × response ∈ {correct, wrong password, correct for an earlier connection's salt, correct answer truncated to 0..35 bytes, another user's password, md5+garbage, cleartext, other message type, bogus length, trailing bytes, the rotated-away password, silence}, each followed by a pipelined tagged query; the backend password of the auth_query user may rotate between attempts, the configuration may be edited and reloaded between attempts (a cleartext user's password replaced, the trust user switched to a password, a user removed, or nothing changed), and in 30% of the cases its hash cannot be fetched while the pool is created (pgcat must fetch it during the first login); plain or TLS; admin md5 or trust. Oracle: AuthenticationOk iff the pair is configured and (trust or the response is md5(md5(pw+user)+salt of this connection) for the password currently configured); no tag of an unauthenticated attempt is ever received by a backend; authenticated attempts get their query answered. Non-trivial = a well-formed but wrong response (replay, other user, truncation, old password)".into()
    }
    fn cases(&self, tier: Tier) -> u64 {
        tier.pick(2_000, 30_000)
    }
    fn strategy(&self, _tier: Tier) -> BoxedStrategy<Case> {
        let step = prop_oneof![
            9 => (0u8..6, prop_oneof![6 => Just(0u8), 1 => Just(1u8), 2 => Just(2u8)], resp_strategy()).prop_map(|(user, database, resp)| Step::Login { user, database, resp }),
            1 => Just(Step::Rotate),
            1 => (0u8..4).prop_map(Step::Reload),
        ];
        (prop::bool::weighted(0.25), prop::bool::weighted(0.2), prop::bool::weighted(0.3), prop::collection::vec(step, 1..8))
            .prop_map(|(tls, admin_trust, late_hash, steps)| Case { tls, admin_trust, late_hash, steps })
            .boxed()
    }
    fn run(&self, c: &Case, ctx: &mut WorkerCtx) -> Outcome {
        wire::run_async(run_case(c, ctx))
    }
}

fn md5_hash_for(user: &str, pw: &str) -> String {
    format!("md5{}", proto::md5_hex(&[pw.as_bytes(), user.as_bytes()]))
}

/// current definition of the pool's users: (name, cleartext password if any, kind: 0 = password, 1 = auth_query, 2 = trust)
fn initial_users() -> Vec<(String, Option<String>, u8)> {
    USERS.iter().map(|(n, p, k)| (n.to_string(), if *k == 0 { Some(p.to_string()) } else { None }, *k)).collect()
}

fn config(mocks: &[crate::mock::MockServer], c: &Case) -> PgcatConfig {
    config_with(mocks, c, &initial_users())
}

fn config_with(mocks: &[crate::mock::MockServer], c: &Case, current: &[(String, Option<String>, u8)]) -> PgcatConfig {
    let mut cfg = PgcatConfig::new();
    if c.tls {
        cfg.set_general("tls_certificate", "\"/repo/.circleci/server.cert\"");
        cfg.set_general("tls_private_key", "\"/repo/.circleci/server.key\"");
    }
    if c.admin_trust {
        cfg.set_general("admin_auth_type", "\"trust\"");
    }
    let servers = vec![ServerDef { host: mocks[0].ip.clone(), port: mocks[0].port, role: "primary".into() }];
    let mut users = vec![];
    for (i, (name, pw, kind)) in current.iter().enumerate() {
        users.push(UserDef {
            key: i.to_string(),
            username: name.to_string(),
            password: pw.clone(),
            pool_size: 2,
            extra: if *kind == 2 { vec![("auth_type".into(), "\"trust\"".into())] } else { vec![] },
        });
    }
    cfg.pools.push(PoolDef {
        name: "db".into(),
        settings: vec![
            ("pool_mode".into(), "\"transaction\"".into()),
            ("auth_query".into(), "\"SELECT usename, passwd FROM pg_shadow WHERE usename='$1'\"".into()),
            ("auth_query_user".into(), "\"aq_user\"".into()),
            ("auth_query_password".into(), "\"aq_pw\"".into()),
        ],
        users,
        shards: vec![ShardDef { id: "0".into(), database: "db_db".into(), servers, mirrors: vec![] }],
        raw_tail: String::new(),
    });
    cfg
}

struct Attempt {
    authenticated: bool,
    query_answered: bool,
    saw_error: bool,
    salt: Option<Vec<u8>>,
    tag: crate::sqllex::Tag,
}

async fn attempt(env: &Env, id: u32, tls: bool, user: &str, db: &str, resp: &Resp, passwords: &HashMap<String, String>, old_pw: &str, last_salt: &Option<Vec<u8>>) -> Result<Attempt, String> {
    let mut cli = Cli::connect(id, &env.addr(), tls).await.map_err(|e| format!("connect: {}", e))?;
    let tag = cli.tag();
    let q = proto::query(&format!("{} SELECT v FROM t", tag.render()));
    cli.send(&proto::startup_packet(&[("user", user), ("database", db)])).await;
    let mut a = Attempt { authenticated: false, query_answered: false, saw_error: false, salt: None, tag };
    let mut sent_query = false;
    let pw = passwords.get(user).cloned().unwrap_or_else(|| "nopw".into());
    let t = Duration::from_millis(1500);
    loop {
        let m = match cli.read_msg(t).await {
            Ok(m) => m,
            Err(ReadEnd::Timeout) => {
                // silence is acceptable only when we ourselves sent nothing answerable
                break;
            }
            Err(_) => break,
        };
        match m.code {
            b'R' => {
                let code = i32::from_be_bytes([m.body[0], m.body[1], m.body[2], m.body[3]]);
                if code == 0 {
                    a.authenticated = true;
                    if !sent_query {
                        // trust users / admin trust: no challenge was issued
                        cli.send(&q).await;
                        sent_query = true;
                    }
                } else if code == 5 {
                    let salt = m.body[4..8].to_vec();
                    a.salt = Some(salt.clone());
                    let correct = proto::md5_password_body(user, &pw, &salt);
                    let body: Option<Vec<u8>> = match resp {
                        Resp::Correct => Some(correct.clone()),
                        Resp::WrongPassword => Some(proto::md5_password_body(user, "definitely-wrong", &salt)),
                        Resp::ReplayedSalt => Some(proto::md5_password_body(user, &pw, last_salt.as_deref().unwrap_or(&[1, 2, 3, 4]))),
                        Resp::Truncated(k) => Some(correct[..(*k as usize).min(correct.len() - 1)].to_vec()),
                        Resp::OtherUsersPassword => Some(proto::md5_password_body(user, if user == "alice" { "bob_pw" } else { "alice_pw" }, &salt)),
                        Resp::Md5Garbage => Some(b"md5ffffffffffffffffffffffffffffffff\0".to_vec()),
                        Resp::Cleartext => {
                            let mut v = pw.clone().into_bytes();
                            v.push(0);
                            Some(v)
                        }
                        Resp::ExtraAfterNul => {
                            let mut v = correct.clone();
                            v.extend_from_slice(b"xyz");
                            Some(v)
                        }
                        Resp::OldPassword => Some(proto::md5_password_body(user, old_pw, &salt)),
                        Resp::WrongMessage(_) | Resp::BadLength(_) | Resp::Nothing => None,
                    };
                    let mut out = match (body, resp) {
                        (Some(b), _) => proto::password_message(&b),
                        (None, Resp::WrongMessage(code)) => proto::frame(*code, b"SELECT 1\0"),
                        (None, Resp::BadLength(l)) => {
                            let mut v = vec![b'p'];
                            v.extend_from_slice(&l.to_be_bytes());
                            v.extend_from_slice(&correct);
                            v
                        }
                        _ => vec![],
                    };
                    if matches!(resp, Resp::Nothing) {
                        cli.close();
                        break;
                    }
                    // the query is pipelined right behind the response
                    out.extend_from_slice(&q);
                    sent_query = true;
                    cli.send(&out).await;
                } else {
                    return Err(format!("unexpected authentication request {}", code));
                }
            }
            b'E' => {
                a.saw_error = true;
                if !a.authenticated {
                    // wait for the close, watching for a late AuthenticationOk
                    let (rest, _e) = cli.read_until_closed(Duration::from_millis(300)).await;
                    if rest.iter().any(|m| m.code == b'R' && m.body.len() >= 4 && m.body[..4] == [0, 0, 0, 0]) {
                        a.authenticated = true;
                    }
                    break;
                }
            }
            b'Z' => {
                if a.authenticated {
                    // first Z ends the startup, the second one the pipelined query
                    let (msgs, e) = cli.read_until_ready(Duration::from_secs(5)).await;
                    a.query_answered = matches!(e, ReadEnd::Ready(_)) && msgs.iter().any(|m| m.code == b'D' || m.code == b'C');
                    break;
                }
            }
            _ => {}
        }
    }
    cli.close();
    Ok(a)
}

async fn run_case(c: &Case, ctx: &mut WorkerCtx) -> Outcome {
    let mut o = Outcome::pass();
    let mut spec = BackendSpec::trust("127.0.0.1", "p0");
    if !c.late_hash {
        spec.auth_query.insert("carol".into(), md5_hash_for("carol", "carol_pw"));
    }
    let env = match Env::start(ctx, &[spec], |m| config(m, c)).await {
        Ok(e) => e,
        Err(e) => {
            o.inconclusive = Some(e);
            return o;
        }
    };
    if c.late_hash {
        env.mocks[0].set_auth_hash("carol", &md5_hash_for("carol", "carol_pw"));
        o.label("hash_unavailable_at_pool_creation");
    }
    let mut passwords: HashMap<String, String> = USERS.iter().map(|(u, p, _)| (u.to_string(), p.to_string())).collect();
    passwords.insert(pgc::ADMIN_USER.into(), pgc::ADMIN_PASS.into());
    let mut old_pws: HashMap<String, String> = HashMap::new();
    let mut current = initial_users();
    let mut reloads = 0;
    let mut last_salt: Option<Vec<u8>> = None;
    let mut rotations = 0;
    let mut unauth_tags = vec![];
    if c.tls {
        o.label("tls");
    }
    for (i, st) in c.steps.iter().enumerate() {
        match st {
            Step::Rotate => {
                rotations += 1;
                old_pws.insert("carol".into(), passwords["carol"].clone());
                let new_pw = format!("carol_pw_v{}", rotations);
                env.mocks[0].set_auth_hash("carol", &md5_hash_for("carol", &new_pw));
                passwords.insert("carol".into(), new_pw);
                o.label("password_rotated");
            }
            Step::Reload(kind) => {
                reloads += 1;
                match kind % 4 {
                    0 => {
                        if let Some(u) = current.iter_mut().find(|u| u.0 == "alice") {
                            let new_pw = format!("alice_pw_r{}", reloads);
                            old_pws.insert("alice".into(), passwords["alice"].clone());
                            passwords.insert("alice".into(), new_pw.clone());
                            u.1 = Some(new_pw);
                        }
                        o.label("reload:password_changed");
                    }
                    1 => {
                        if let Some(u) = current.iter_mut().find(|u| u.0 == "trusty") {
                            u.1 = Some("trusty_pw".into());
                            u.2 = 0;
                            passwords.insert("trusty".into(), "trusty_pw".into());
                        }
                        o.label("reload:trust_revoked");
                    }
                    2 => {
                        current.retain(|u| u.0 != "bob");
                        passwords.remove("bob");
                        o.label("reload:user_removed");
                    }
                    _ => o.label("reload:unchanged"),
                }
                env.pg.write_config(&config_with(&env.mocks, c, &current).to_toml(env.pg.port));
                let ok = match env.admin().await {
                    Ok(mut a) => {
                        let (m, e) = a.simple("RELOAD", wire::T_REPLY).await;
                        matches!(e, ReadEnd::Ready(_)) && !m.iter().any(|x| x.code == b'E')
                    }
                    Err(_) => false,
                };
                if !ok {
                    o.inconclusive = Some("RELOAD of a valid file failed".into());
                    break;
                }
            }
            Step::Login { user, database, resp } => {
                o.sub_evaluations += 1;
                let uname: String = match *user {
                    0..=3 => USERS[*user as usize].0.to_string(),
                    4 => "mallory".to_string(),
                    _ => pgc::ADMIN_USER.to_string(),
                };
                let db = ["db", "nodb", "pgcat"][*database as usize % 3];
                let cur = current.iter().find(|u| u.0 == uname).cloned();
                let configured_pool = db == "db" && cur.is_some();
                let is_admin_db = db == "pgcat";
                let trust = (configured_pool && cur.as_ref().map(|u| u.2 == 2).unwrap_or(false)) || (is_admin_db && c.admin_trust);
                // who may get in at all
                let pair_ok = configured_pool || is_admin_db;
                let creds_user_ok = if is_admin_db { *user == 5 || c.admin_trust } else { true };
                let resp_correct = match resp {
                    Resp::Correct => true,
                    // a replayed answer is only correct if the salts happen to coincide (2^-32): treat as wrong
                    _ => false,
                };
                // admin md5: the admin password is checked against admin_username's hash whatever user name is sent
                let want_ok = pair_ok && (trust || (creds_user_ok && resp_correct && (is_admin_db || passwords.contains_key(&uname))));
                // the admin database with md5 computes the hash with admin_username: a client that presents a
                // different user name cannot produce it with the harness' helper, so only user 5 is expected in
                let a = match attempt(&env, 100 + i as u32, c.tls, &uname, db, resp, &passwords, old_pws.get(&uname).map(|s| s.as_str()).unwrap_or("never-valid"), &last_salt).await {
                    Ok(a) => a,
                    Err(e) => {
                        o.inconclusive = Some(e);
                        break;
                    }
                };
                if let Some(s) = &a.salt {
                    last_salt = Some(s.clone());
                }
                let class = format!("{}:{}:{}", if is_admin_db { "admin" } else if configured_pool { ["cleartext", "auth_query", "trust"][cur.as_ref().map(|u| u.2 as usize).unwrap_or(0) % 3] } else { "unconfigured" }, resp_name(resp), if reloads > 0 { "reloaded" } else if rotations > 0 { "rotated" } else { "fresh" });
                if !matches!(resp, Resp::Correct | Resp::Nothing | Resp::WrongMessage(_) | Resp::BadLength(_)) {
                    o.nontrivial = true;
                }
                o.label(&format!("resp:{}", resp_name(resp)));
                // a rotated-away password of the auth_query user: the pooler may legitimately still hold the
                // old hash until something makes it refetch; not settled by the property
                let stale_cache_case = uname == "carol" && configured_pool && rotations > 0 && matches!(resp, Resp::OldPassword);
                if stale_cache_case {
                    o.label("dontcare_old_password_after_rotation");
                    continue;
                }
                if a.authenticated && !want_ok {
                    o.fail(&format!("admitted-without-valid-credentials:{}", class), format!("user {:?} database {:?} response {:?} got AuthenticationOk (step {} of {:?})", uname, db, resp, i, c.steps));
                    break;
                }
                if !a.authenticated {
                    unauth_tags.push(a.tag);
                }
                if want_ok && !a.authenticated {
                    o.fail(&format!("valid-credentials-refused:{}", class), format!("user {:?} database {:?} response {:?} was refused (step {} of {:?}); pgcat stderr: {}", uname, db, resp, i, c.steps, env.pg.stderr_tail(500)));
                    break;
                }
                if want_ok && !is_admin_db && !a.query_answered {
                    o.fail(&format!("authenticated-but-not-served:{}", class), format!("user {:?} was admitted but its first query was not answered", uname));
                    break;
                }
                if a.authenticated {
                    o.label("admitted");
                }
            }
        }
    }
    // absence: nothing an unauthenticated attempt sent may ever be seen by a backend
    tokio::time::sleep(Duration::from_millis(40)).await;
    if o.violation.is_none() {
        let log = env.log();
        for t in &unauth_tags {
            if log.iter().any(|ev| matches!(&ev.kind, EvKind::Rx { tags, .. } if tags.contains(t))) {
                o.fail("unauthenticated-traffic-reached-server", format!("the query {} of an attempt that never got AuthenticationOk was received by a backend", t.short()));
                break;
            }
        }
    }
    let mut env = env;
    if o.violation.is_none() && !env.pg.alive() {
        o.fail("pgcat-died", format!("pgcat exited: {}", env.pg.stderr_tail(600)));
    }
    env.finish().await;
    o
}

fn resp_name(r: &Resp) -> &'static str {
    match r {
        Resp::Correct => "correct",
        Resp::WrongPassword => "wrong_password",
        Resp::ReplayedSalt => "replayed_salt",
        Resp::Truncated(_) => "truncated",
        Resp::OtherUsersPassword => "other_users_password",
        Resp::Md5Garbage => "md5_garbage",
        Resp::Cleartext => "cleartext",
        Resp::WrongMessage(_) => "wrong_message",
        Resp::BadLength(_) => "bad_length",
        Resp::ExtraAfterNul => "extra_after_nul",
        Resp::OldPassword => "old_password",
        Resp::Nothing => "nothing",
    }
}
