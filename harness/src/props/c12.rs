//! C12 — a client's session parameters follow it across server connections.

use crate::cli::{Cli, ReadEnd};
use crate::engine::{Outcome, Part, PartReport, Tier, WorkerCtx};
use crate::mock::EvKind;
use crate::pgc::{self, PgcatConfig, ServerDef};
use crate::prog::{self, Req, Sk, St};
use crate::wire::{self, BackendSpec, Env};
use proptest::prelude::*;
use serde::{Deserialize, Serialize};
use std::time::Instant;

pub fn check(tier: Tier, seed: u64, replay: (Option<&str>, Option<&str>)) -> Vec<PartReport> {
    crate::run_parts!(tier, seed, replay, [WirePart])
}

/// (name as the server reports it, spelling a client may use at start-up)
const TRACKED: [(&str, &str); 5] =
    [("application_name", "application_name"), ("TimeZone", "timezone"), ("DateStyle", "datestyle"), ("client_encoding", "client_encoding"), ("standard_conforming_strings", "standard_conforming_strings")];
const UNTRACKED: [&str; 3] = ["statement_timeout", "work_mem", "search_path"];

#[derive(Clone, Debug, Serialize, Deserialize)]
pub enum Op {
    /// tagged autocommit statement: the check point
    Stmt,
    /// SET <tracked> outside a transaction
    SetTracked(u8, String),
    /// the same through the extended protocol (Parse/Bind/Execute/Sync of the SET statement)
    SetTrackedExt(u8, String),
    SetUntracked(u8, String),
    /// BEGIN; SET <tracked>; statement; COMMIT or ROLLBACK
    TxnSet(u8, String, bool),
    /// RESET of a tracked parameter
    Reset(u8),
    /// RELOAD through the admin console; true = the pool's definition changed (pool_size +1 / back), so the pool and its server
    /// connections are rebuilt under the connected clients
    Reload(bool),
}

#[derive(Clone, Debug, Serialize, Deserialize)]
pub struct Client {
    /// start-up parameters: (tracked index, use the lower-case spelling, value)
    pub startup: Vec<(u8, bool, String)>,
    pub ops: Vec<Op>,
}

#[derive(Clone, Debug, Serialize, Deserialize)]
pub struct Case {
    pub pool_size: u8,
    pub session_mode: bool,
    pub clients: Vec<Client>,
    /// which client moves next
    pub order: Vec<u16>,
}

pub struct WirePart;

fn value_for(idx: u8) -> BoxedStrategy<String> {
    match idx % 5 {
        0 => prop_oneof![
            3 => "[a-zA-Z0-9_ ]{1,12}",
            // values of different clients that differ only in letter case
            4 => prop_oneof![Just("Billing"), Just("billing"), Just("BILLING"), Just("billinG")].prop_map(|s| s.to_string()),
            2 => Just("it's".to_string()),
            1 => Just("a''b".to_string()),
            1 => Just("back\\slash".to_string()),
            1 => Just("semi;colon -- dash".to_string()),
            1 => Just("quote\"double".to_string()),
            1 => Just("';SELECT 1;--".to_string()),
            1 => Just("naïve café ☕".to_string()),
            1 => Just("trailing\\".to_string()),
            1 => Just("\\'".to_string()),
            1 => Just("/* c */ $$x$$".to_string()),
        ]
        .boxed(),
        1 => prop_oneof![Just("Europe/Paris"), Just("America/New_York"), Just("UTC"), Just("Asia/Kolkata"), Just("Etc/UTC")].prop_map(|s| s.to_string()).boxed(),
        2 => prop_oneof![Just("ISO, MDY"), Just("SQL, DMY"), Just("German, DMY"), Just("Postgres, MDY")].prop_map(|s| s.to_string()).boxed(),
        3 => prop_oneof![Just("UTF8"), Just("LATIN1"), Just("SQL_ASCII")].prop_map(|s| s.to_string()).boxed(),
        _ => prop_oneof![Just("on"), Just("off")].prop_map(|s| s.to_string()).boxed(),
    }
}

fn tracked_pair() -> BoxedStrategy<(u8, String)> {
    prop_oneof![4 => Just(0u8), 2 => Just(1u8), 2 => Just(2u8), 1 => Just(3u8), 1 => Just(4u8)].prop_flat_map(|i| value_for(i).prop_map(move |v| (i, v))).boxed()
}

fn client_strategy() -> BoxedStrategy<Client> {
    let op = prop_oneof![
        5 => Just(Op::Stmt),
        3 => tracked_pair().prop_map(|(i, v)| Op::SetTracked(i, v)),
        1 => tracked_pair().prop_map(|(i, v)| Op::SetTrackedExt(i, v)),
        2 => (0u8..3, "[a-z0-9]{1,6}").prop_map(|(i, v)| Op::SetUntracked(i, v)),
        2 => (tracked_pair(), any::<bool>()).prop_map(|((i, v), c)| Op::TxnSet(i, v, c)),
        1 => (0u8..5).prop_map(Op::Reset),
        1 => prop::bool::weighted(0.8).prop_map(Op::Reload),
    ];
    (prop::collection::vec((tracked_pair(), any::<bool>()).prop_map(|((i, v), lower)| (i, lower, v)), 0..4), prop::collection::vec(op, 1..7))
        .prop_map(|(mut startup, ops)| {
            // one value per parameter in the start-up packet
            startup.sort_by_key(|x| x.0);
            startup.dedup_by_key(|x| x.0);
            Client { startup, ops }
        })
        .boxed()
}

impl Part for WirePart {
    type Case = Case;
    fn prop(&self) -> &'static str {
        "C12"
    }
    fn name(&self) -> &'static str {
        "wire"
    }
    fn wire(&self) -> bool {
        true
    }
    fn rule(&self) -> String {
        "2..3 clients sharing a pool of 1..2 connections (transaction mode, or session mode with a connection each); start-up packets with 0..3 of the five tracked parameters (both spellings of TimeZone/DateStyle); per client 1..6 operations over {tagged statement, SET tracked outside a transaction (simple or extended protocol), SET untracked, BEGIN; SET tracked; statement; COMMIT|ROLLBACK, RESET tracked, RELOAD with an unchanged file or one that changes pool_size (the pool and its server connections are rebuilt under the connected clients)} in a generated interleaving; application_name values include quotes, doubled quotes, backslashes, ';', '--', comment and dollar-quote openers, non-ASCII. Oracle (evaluated on the mock backend's GUC table at every tagged statement): the five tracked parameters equal what the issuing client was last told in ParameterStatus (checked against its own start-up values too), and in transaction mode no untracked value set by anybody is visible. Non-trivial = a value containing a quote/backslash/non-ASCII, or two clients holding different values of one parameter on one connection".into()
    }
    fn cases(&self, tier: Tier) -> u64 {
        tier.pick(1_600, 24_000)
    }
    fn strategy(&self, _tier: Tier) -> BoxedStrategy<Case> {
        (1u8..=2, prop::bool::weighted(0.2), prop::collection::vec(client_strategy(), 2..4), prop::collection::vec(any::<u16>(), 4..24))
            .prop_map(|(pool_size, session_mode, clients, order)| Case { pool_size: if session_mode { clients.len() as u8 } else { pool_size }, session_mode, clients, order })
            .boxed()
    }
    fn run(&self, c: &Case, ctx: &mut WorkerCtx) -> Outcome {
        wire::run_async(run_case(c, ctx))
    }
}

fn config(mocks: &[crate::mock::MockServer], c: &Case) -> PgcatConfig {
    config_gen(mocks, c, 0)
}

/// `gen` = number of definition-changing reloads so far (the pool size alternates)
fn config_gen(mocks: &[crate::mock::MockServer], c: &Case, gen: u32) -> PgcatConfig {
    let mut cfg = PgcatConfig::new();
    let servers = vec![ServerDef { host: mocks[0].ip.clone(), port: mocks[0].port, role: "primary".into() }];
    let mut pool = pgc::simple_pool("db", "u", "pw", c.pool_size as u32 + (gen % 2), servers);
    if c.session_mode {
        pool.set("pool_mode", "\"session\"");
    }
    cfg.pools.push(pool);
    cfg
}

fn special(v: &str) -> bool {
    v.contains('\'') || v.contains('\\') || !v.is_ascii() || v.contains(';') || v.contains('"')
}

async fn run_case(c: &Case, ctx: &mut WorkerCtx) -> Outcome {
    let mut o = Outcome::pass();
    let env = match Env::start(ctx, &[BackendSpec::trust("127.0.0.1", "p0")], |m| config(m, c)).await {
        Ok(e) => e,
        Err(e) => {
            o.inconclusive = Some(e);
            return o;
        }
    };
    let t0 = Instant::now();
    let mut clis: Vec<Cli> = vec![];
    for (i, cl) in c.clients.iter().enumerate() {
        let extra: Vec<(&str, &str)> = cl.startup.iter().map(|(idx, lower, v)| (if *lower { TRACKED[*idx as usize % 5].1 } else { TRACKED[*idx as usize % 5].0 }, v.as_str())).collect();
        match env.client(i as u32 + 1, "u", "db", "pw", &extra).await {
            Ok(cli) => {
                // the client must be told its own start-up values
                for (idx, _lower, v) in &cl.startup {
                    let name = TRACKED[*idx as usize % 5].0;
                    if special(v) {
                        o.nontrivial = true;
                    }
                    if cli.param(name) != Some(v.as_str()) {
                        o.fail(
                            &format!("startup-value-not-reported:{}", name),
                            format!("client c{} sent {}={:?} at start-up but was told {:?}", i + 1, name, v, cli.param(name)),
                        );
                    }
                }
                clis.push(cli);
            }
            Err(e) => {
                o.inconclusive = Some(format!("login c{}: {}", i + 1, e));
                env.finish().await;
                return o;
            }
        }
    }
    if o.violation.is_some() {
        env.finish().await;
        return o;
    }
    let mut next_op = vec![0usize; clis.len()];
    let mut reload_gen = 0u32;
    let mut values_on_conn: std::collections::HashMap<(u64, String), std::collections::HashSet<String>> = Default::default();
    'outer: for choice in &c.order {
        // pick the next client that still has operations (monotone mapping of the choice)
        let live: Vec<usize> = (0..clis.len()).filter(|i| next_op[*i] < c.clients[*i].ops.len()).collect();
        if live.is_empty() {
            break;
        }
        let i = live[crate::engine::pick(*choice, live.len())];
        let op = c.clients[i].ops[next_op[i]].clone();
        next_op[i] += 1;
        o.sub_evaluations += 1;
        if let Op::Reload(changed) = &op {
            if *changed {
                reload_gen += 1;
                o.label("reload_rebuilt_pool");
            }
            env.pg.write_config(&config_gen(&env.mocks, c, reload_gen).to_toml(env.pg.port));
            let ok = match env.admin().await {
                Ok(mut a) => {
                    let (m, e) = a.simple("RELOAD", wire::T_REPLY).await;
                    matches!(e, ReadEnd::Ready(_)) && !m.iter().any(|x| x.code == b'E')
                }
                Err(_) => false,
            };
            if !ok {
                o.inconclusive = Some("RELOAD of a valid file failed".into());
                break 'outer;
            }
            continue;
        }
        let reqs: Vec<Req> = match &op {
            Op::Reload(_) => unreachable!(),
            Op::Stmt => vec![Req::Simple(vec![St::new(Sk::Select)])],
            Op::SetTracked(idx, v) => {
                if special(v) {
                    o.nontrivial = true;
                }
                vec![Req::Simple(vec![St::new(Sk::Set(TRACKED[*idx as usize % 5].0.into(), v.clone()))])]
            }
            Op::SetTrackedExt(idx, v) => {
                if special(v) {
                    o.nontrivial = true;
                }
                let st = St::new(Sk::Set(TRACKED[*idx as usize % 5].0.into(), v.clone()));
                vec![Req::Batch(vec![prog::Ext::Parse(String::new(), st, vec![]), prog::Ext::Bind(String::new(), String::new()), prog::Ext::Execute(String::new(), 0)])]
            }
            Op::SetUntracked(idx, v) => vec![Req::Simple(vec![St::new(Sk::Set(UNTRACKED[*idx as usize % 3].into(), v.clone()))])],
            Op::TxnSet(idx, v, commit) => vec![
                Req::Simple(vec![St::new(Sk::Begin)]),
                Req::Simple(vec![St::new(Sk::Set(TRACKED[*idx as usize % 5].0.into(), v.clone()))]),
                Req::Simple(vec![St::new(Sk::Select)]),
                Req::Simple(vec![St::new(if *commit { Sk::Commit } else { Sk::Rollback })]),
            ],
            Op::Reset(idx) => vec![Req::Simple(vec![St::new(Sk::Raw(format!("RESET {}", TRACKED[*idx as usize % 5].0)))])],
        };
        for rq in &reqs {
            // the client's view just before the statement is sent
            let view: Vec<(String, Option<String>)> = TRACKED.iter().map(|(n, _)| (n.to_string(), clis[i].param(n).map(|s| s.to_string()))).collect();
            let is_check = matches!(rq, Req::Simple(v) if matches!(v[0].kind, Sk::Select));
            let x = prog::run_req(&mut clis[i], rq, t0).await;
            if !matches!(x.end, ReadEnd::Ready(_)) {
                o.inconclusive = Some(format!("c{} request ended {:?}", i + 1, x.end));
                break 'outer;
            }
            if !is_check {
                continue;
            }
            let ev = match env.shared.find_tag(x.tags[0]) {
                Some(e) => e,
                None => {
                    o.inconclusive = Some("tagged statement not in any backend log".into());
                    break 'outer;
                }
            };
            if let EvKind::Rx { snap, .. } = &ev.kind {
                for (name, told) in &view {
                    let on_server = snap.tracked.iter().find(|(k, _)| k == name).map(|x| x.1.clone());
                    values_on_conn.entry((ev.conn, name.clone())).or_default().insert(on_server.clone().unwrap_or_default());
                    if told.is_some() && on_server != *told {
                        let kind = if told.as_deref().map(special).unwrap_or(false) { "special-chars" } else { "plain" };
                        o.fail(
                            &format!("parameter-not-following-client:{}:{}", name, kind),
                            format!(
                                "client c{} was told {}={:?} but its statement {} ran on backend conn {} with {}={:?} (ops so far: {:?})",
                                i + 1,
                                name,
                                told,
                                x.tags[0].short(),
                                ev.conn,
                                name,
                                on_server,
                                c.clients[i].ops.iter().take(next_op[i]).collect::<Vec<_>>()
                            ),
                        );
                        break 'outer;
                    }
                }
                if !c.session_mode && !snap.dirty_gucs.is_empty() && snap.txn == b'I' {
                    o.fail(
                        "untracked-value-leaked",
                        format!("statement {} of c{} ran on backend conn {} where untracked parameters are still set: {:?}", x.tags[0].short(), i + 1, ev.conn, snap.dirty_gucs),
                    );
                    break 'outer;
                }
            }
        }
    }
    if values_on_conn.values().any(|s| s.len() >= 2) {
        o.nontrivial = true;
        o.label("different_values_on_one_connection");
    }
    env.finish().await;
    o
}
