//! C07 — broken replicas are banned and bypassed; service continues on healthy servers.

use crate::cli::ReadEnd;
use crate::engine::{Outcome, Part, PartReport, Tier, WorkerCtx};
use crate::mock::{EvKind, Fault};
use crate::pgc::{PgcatConfig, PoolDef, ServerDef, ShardDef, UserDef};
use crate::proto;
use crate::wire::{self, BackendSpec, Env};
use proptest::prelude::*;
use serde::{Deserialize, Serialize};
use std::collections::{HashMap, HashSet};
use std::time::{Duration, Instant};

pub fn check(tier: Tier, seed: u64, replay: (Option<&str>, Option<&str>)) -> Vec<PartReport> {
    crate::run_parts!(tier, seed, replay, [WirePart])
}

#[derive(Clone, Debug, Serialize, Deserialize, PartialEq)]
pub enum Mode {
    Up,
    Down,
    HangStartup,
    HangQuery,
    /// dies on the next message it receives (after receiving it)
    CloseOnMessage,
    Slow,
    /// refuses new connections, established sessions stay alive
    RefuseNew,
}

#[derive(Clone, Debug, Serialize, Deserialize)]
pub enum Step {
    Fault(u8, Mode),
    Ban(u8, u8),
    /// BAN of the host the primaries run on
    BanPrimaryHost,
    /// admin-ban every replica of one shard for 30 s
    BanShard(u8),
    Unban(u8),
    /// transaction on a shard with a role request: 0 = any, 1 = replica, 2 = primary ; write = INSERT
    Txn(u8, u8, bool),
    /// statement whose reply stops after ~9 kB of rows (only with statement_timeout configured)
    TxnHangMidReply(u8, u8),
    /// wait for bans to expire (only generated with ban_time = 1)
    Sleep,
    /// a client opens a transaction with role replica on the shard and keeps it open until the end of the history
    HoldTxn(u8),
    /// the replica on which the latest held transaction runs starts refusing new connections (its sessions stay alive)
    RefuseNewOnHeld,
    /// RELOAD with a changed pool_size: the pool object (and with it pgcat's ban list) is rebuilt
    ReloadPool,
}

#[derive(Clone, Debug, Serialize, Deserialize)]
pub struct Case {
    pub shards: u8,
    pub primary: bool,
    /// replicas in total, distributed round-robin over the shards
    pub replicas: u8,
    pub loc: bool,
    pub healthcheck_delay_zero: bool,
    pub statement_timeout: bool,
    pub ban_time_short: bool,
    pub workers: u8,
    pub steps: Vec<Step>,
    /// (only with ban_time = 1 s) after the history: every replica is brought up, bans are left to expire, and replica-role
    /// transactions must reach every replica of a shard again
    #[serde(default)]
    pub expiry_probe: bool,
}

pub struct WirePart;

impl Part for WirePart {
    type Case = Case;
    fn prop(&self) -> &'static str {
        "C07"
    }
    fn name(&self) -> &'static str {
        "wire"
    }
    fn wire(&self) -> bool {
        true
    }
    fn rule(&self) -> String {
        "1..2 shards, each with or without a primary, 0..4 replicas on distinct loopback addresses, random or least-outstanding load balancing, healthcheck_delay 0 or 60 s, healthcheck_timeout 150 ms, connect_timeout 200 ms, statement_timeout 0 or 300 ms, ban_time 1 or 60 s; histories of 3..14 steps over {set a replica's fault mode: up / accept-and-close / hang at start-up / hang at query / die on the next message / slow / refuse new connections while keeping the established ones, admin BAN host secs (replica or the primaries' host), UNBAN host, client transaction on a shard with role any|replica|primary (read or write), a statement whose reply stalls after 9 kB, sleep past a short ban, a transaction held open on a replica until the end, that replica starting to refuse new connections, a RELOAD that rebuilds the pool (bans must survive it)}; with ban_time 1 s, half of the histories end with an expiry probe (everything up, bans left to expire, then 26..60 replica-role transactions per shard). The ban list is sampled through SHOW BANS before and after every transaction (observation-driven model). Oracle: the primary never appears in SHOW BANS; a replica enters the ban list only if it was faulty or admin-banned and leaves it only by UNBAN, expiry or the all-replicas-of-its-shard-banned rule; no tagged statement reaches a replica that was certainly banned while another replica of the shard could not have been banned; a transaction with a usable, unbanned candidate is served without error; when every replica of the shard is banned the next checkout is served by one of them; a replica that breaks mid-statement costs that one transaction and is then banned; a transaction that is served only after a connect timeout's worth of waiting leaves a faulty candidate banned; refusals and failovers complete within candidates x timeouts + 2 s, never blocking indefinitely; after the expiry probe every replica of the shard has received at least one statement (a ban ends after ban_time, also under least-outstanding balancing). Non-trivial = a fault active during a transaction that had an alternative candidate".into()
    }
    fn cases(&self, tier: Tier) -> u64 {
        tier.pick(880, 8_000)
    }
    fn strategy(&self, _tier: Tier) -> BoxedStrategy<Case> {
        let mode = prop_oneof![3 => Just(Mode::Up), 3 => Just(Mode::Down), 2 => Just(Mode::HangStartup), 2 => Just(Mode::HangQuery), 2 => Just(Mode::CloseOnMessage), 1 => Just(Mode::Slow), 2 => Just(Mode::RefuseNew)];
        let step = prop_oneof![
            4 => (0u8..4, mode).prop_map(|(r, m)| Step::Fault(r, m)),
            3 => (0u8..4, prop_oneof![Just(1u8), Just(30u8)]).prop_map(|(r, s)| Step::Ban(r, s)),
            1 => Just(Step::BanPrimaryHost),
            2 => (0u8..2).prop_map(Step::BanShard),
            1 => (0u8..4).prop_map(Step::Unban),
            9 => (0u8..2, 0u8..3, prop::bool::weighted(0.3)).prop_map(|(s, r, w)| Step::Txn(s, r, w)),
            1 => (0u8..2, 0u8..2).prop_map(|(s, r)| Step::TxnHangMidReply(s, r)),
            1 => Just(Step::Sleep),
            1 => (0u8..2).prop_map(Step::HoldTxn),
            1 => Just(Step::RefuseNewOnHeld),
            1 => Just(Step::ReloadPool),
        ];
        (1u8..=2, any::<bool>(), prop_oneof![1 => 0u8..=4, 1 => Just(4u8), 1 => Just(2u8)], any::<bool>(), any::<bool>(), any::<bool>(), prop::bool::weighted(0.3), prop_oneof![Just(1u8), Just(2u8), Just(4u8)], prop::collection::vec(step, 3..15), prop::bool::weighted(0.5))
            .prop_map(|(shards, primary, replicas, loc, healthcheck_delay_zero, statement_timeout, ban_time_short, workers, steps, expiry_probe)| {
                // every shard needs at least one server
                let primary = primary || replicas < shards;
                let mut steps: Vec<Step> = steps.into_iter().filter(|s| ban_time_short || !matches!(s, Step::Sleep)).collect();
                // make sure the interesting history occurs in a fifth of the cases: a replica whose only open connection is held
                // by a transaction stops accepting connections, then replica-role transactions follow
                if replicas >= 2 && workers != 4 && steps.len() % 5 == 0 {
                    let at = steps.len() / 2;
                    let block = vec![Step::HoldTxn(0), Step::RefuseNewOnHeld, Step::Txn(0, 1, false), Step::Txn(0, 1, false), Step::Txn(0, 0, false), Step::Txn(0, 1, false)];
                    steps.splice(at..at, block);
                }
                Case { shards, primary, replicas, loc, healthcheck_delay_zero, statement_timeout, ban_time_short, workers, steps, expiry_probe: expiry_probe && ban_time_short }
            })
            .boxed()
    }
    fn run(&self, c: &Case, ctx: &mut WorkerCtx) -> Outcome {
        wire::run_async(run_case(c, ctx))
    }
}

const PRIMARY_IP: &str = "127.0.0.1";
fn replica_ip(r: usize) -> String {
    format!("127.0.0.{}", r + 2)
}

fn config(mocks: &[crate::mock::MockServer], c: &Case) -> PgcatConfig {
    config_gen(mocks, c, 0)
}

/// `gen` = number of reloads so far (pool_size alternates between 2 and 3, so every reload rebuilds the pool)
fn config_gen(mocks: &[crate::mock::MockServer], c: &Case, gen: u32) -> PgcatConfig {
    let mut cfg = PgcatConfig::new();
    cfg.set_general("worker_threads", &c.workers.to_string());
    cfg.set_general("connect_timeout", "200");
    cfg.set_general("healthcheck_timeout", "150");
    cfg.set_general("healthcheck_delay", if c.healthcheck_delay_zero { "0" } else { "60000" });
    cfg.set_general("ban_time", if c.ban_time_short { "1" } else { "60" });
    let nsh = c.shards as usize;
    let np = if c.primary { nsh } else { 0 };
    let mut shards = vec![];
    for s in 0..nsh {
        let mut servers = vec![];
        if c.primary {
            servers.push(ServerDef { host: mocks[s].ip.clone(), port: mocks[s].port, role: "primary".into() });
        }
        for r in 0..c.replicas as usize {
            if r % nsh == s {
                servers.push(ServerDef { host: mocks[np + r].ip.clone(), port: mocks[np + r].port, role: "replica".into() });
            }
        }
        shards.push(ShardDef { id: s.to_string(), database: format!("shard{}", s), servers, mirrors: vec![] });
    }
    let mut settings: Vec<(String, String)> = vec![("pool_mode".into(), "\"transaction\"".into())];
    if c.loc {
        settings.push(("load_balancing_mode".into(), "\"loc\"".into()));
    }
    cfg.pools.push(PoolDef {
        name: "db".into(),
        settings,
        users: vec![UserDef { key: "0".into(), username: "u".into(), password: Some("pw".into()), pool_size: 2 + (gen % 2), extra: if c.statement_timeout { vec![("statement_timeout".into(), "300".into())] } else { vec![] } }],
        shards,
        raw_tail: String::new(),
    });
    cfg
}

/// "host|role" -> (reason, remaining seconds)
async fn show_bans(admin: &mut crate::cli::Cli) -> Result<HashMap<String, (String, i64)>, String> {
    let rows = wire::admin_query(admin, "SHOW BANS").await?;
    let mut m = HashMap::new();
    for r in rows {
        let host = r.get("host").cloned().unwrap_or_default();
        let reason = r.get("reason").cloned().unwrap_or_default();
        let rem = r.get("ban_remaining_seconds").and_then(|x| x.parse().ok()).unwrap_or(0);
        m.insert(format!("{}|{}", host, r.get("role").cloned().unwrap_or_default()), (reason, rem));
    }
    Ok(m)
}

async fn run_case(c: &Case, ctx: &mut WorkerCtx) -> Outcome {
    let mut o = Outcome::pass();
    let nsh = c.shards as usize;
    let np = if c.primary { nsh } else { 0 };
    let nrep = c.replicas as usize;
    let mut specs = vec![];
    for s in 0..np {
        specs.push(BackendSpec::trust(PRIMARY_IP, &format!("p{}", s)));
    }
    for r in 0..nrep {
        specs.push(BackendSpec::trust(&replica_ip(r), &format!("r{}", r)));
    }
    let env = match Env::start(ctx, &specs, |m| config(m, c)).await {
        Ok(e) => e,
        Err(e) => {
            o.inconclusive = Some(e);
            return o;
        }
    };
    let mut admin = match env.admin().await {
        Ok(a) => a,
        Err(e) => {
            o.inconclusive = Some(e);
            env.finish().await;
            return o;
        }
    };
    // warm-up: the first login validates the pool (needs a reachable server); do it while everything is up
    match env.client(9000, "u", "db", "pw", &[]).await {
        Ok(mut w) => {
            let _ = w.simple("SELECT 1", wire::T_REPLY).await;
            w.send(&proto::terminate()).await;
            w.close();
        }
        Err(e) => {
            o.inconclusive = Some(format!("warm-up login: {}", e));
            env.finish().await;
            return o;
        }
    }
    let shard_of = |r: usize| r % nsh;
    let reps_of = |s: usize| -> Vec<usize> { (0..nrep).filter(|r| r % nsh == s).collect() };
    let mut mode: Vec<Mode> = vec![Mode::Up; nrep];
    // replicas that were faulty at some point may still have dead/hung pooled connections
    let mut ever_faulty: Vec<bool> = vec![false; nrep];
    // observed ban list: replica index -> (since, duration secs)
    let mut banned: HashMap<usize, (Instant, i64)> = HashMap::new();
    let mut ban_reason: HashMap<usize, String> = HashMap::new();
    // replicas that have been banned at some point: their entry may linger unpurged after expiry (expiry is
    // lazy) and then still counts for the pooler's all-replicas-banned rule
    let mut stale: HashSet<usize> = HashSet::new();
    let mut cid = 0u32;
    let mut reload_gen = 0u32;
    // clients that keep a transaction open on a replica: (client, replica index)
    let mut holders: Vec<(crate::cli::Cli, usize)> = vec![];
    let lag = wire::LagMonitor::start(Instant::now());
    let lag_t0 = Instant::now();

    macro_rules! bail {
        ($sig:expr, $d:expr) => {{
            o.fail($sig, format!("{}; case {:?}; pgcat stderr: {}", $d, c, env.pg.stderr_tail(300)));
            env.finish().await;
            return o;
        }};
    }

    // refresh the observed ban list, checking the transitions against what may legitimately happen.
    // $unban_all_shards: shards in which the all-replicas-banned rule may have fired since the last sample
    macro_rules! observe {
        ($why:expr, $unban_all_shards:expr, $unbanned_by_admin:expr) => {{
            let bans = match show_bans(&mut admin).await {
                Ok(b) => b,
                Err(e) => bail!("admin-command-fails", e),
            };
            if bans.keys().any(|k| k.ends_with("|primary")) {
                bail!("primary-banned", format!("SHOW BANS lists a primary after {}: {:?}", $why, bans));
            }
            let now_set: HashSet<usize> = (0..nrep).filter(|r| bans.keys().any(|k| k.starts_with(&format!("{}|", replica_ip(*r))))).collect();
            let dur_of = |reason: &str| -> i64 {
                if reason.contains("AdminBan") {
                    reason.trim_matches(|ch: char| !ch.is_ascii_digit()).parse().unwrap_or(60)
                } else if c.ban_time_short {
                    1
                } else {
                    60
                }
            };
            for r in &now_set {
                let reason_now = bans.iter().find(|(k, _)| k.starts_with(&format!("{}|", replica_ip(*r)))).map(|x| x.1 .0.clone()).unwrap_or_default();
                if !banned.contains_key(r) {
                    // newly banned: must be explainable
                    if !reason_now.contains("AdminBan") && !ever_faulty[*r] {
                        bail!("healthy-replica-banned", format!("replica r{} has been healthy all along but was banned with reason {} after {}", r, reason_now, $why));
                    }
                    banned.insert(*r, (Instant::now(), dur_of(&reason_now)));
                    stale.insert(*r);
                } else if ban_reason.get(r) != Some(&reason_now) {
                    // banned again for another reason (e.g. unban-all followed by a failed checkout): new clock
                    banned.insert(*r, (Instant::now(), dur_of(&reason_now)));
                }
                ban_reason.insert(*r, reason_now);
            }
            let gone: Vec<usize> = banned.keys().filter(|r| !now_set.contains(r)).cloned().collect();
            for r in gone {
                let (since, dur) = banned[&r];
                let expired_possible = since.elapsed().as_millis() as i64 >= (dur * 1000 - 1500);
                let unban_all: &Vec<usize> = &$unban_all_shards;
                let ok = expired_possible || unban_all.contains(&shard_of(r)) || $unbanned_by_admin == Some(r);
                if !ok {
                    bail!("ban-ended-early", format!("replica r{} left the ban list {} ms after being banned for {} s, after {} (not unbanned, and not every replica of its shard can have been banned)", r, since.elapsed().as_millis(), dur, $why));
                }
                banned.remove(&r);
                ban_reason.remove(&r);
            }
        }};
    }
    let none: Vec<usize> = vec![];

    for (si, st) in c.steps.iter().enumerate() {
        o.sub_evaluations += 1;
        match st {
            Step::Fault(r, m) => {
                if nrep == 0 {
                    continue;
                }
                let r = *r as usize % nrep;
                // a hung query is only bounded by statement_timeout (healthcheck_delay = 0 still skips the health
                // check for a connection used within the same millisecond)
                let m = if *m == Mode::HangQuery && !c.statement_timeout { Mode::Down } else { m.clone() };
                let mock = &env.mocks[np + r];
                mock.set_slow(0);
                match m {
                    Mode::Up => mock.set_fault(Fault::Up),
                    Mode::Down => {
                        mock.set_fault(Fault::Down);
                        mock.kill_sessions();
                    }
                    Mode::HangStartup => {
                        mock.set_fault(Fault::HangStartup);
                        mock.kill_sessions();
                    }
                    Mode::HangQuery => mock.set_fault(Fault::HangQuery),
                    Mode::CloseOnMessage => mock.set_fault(Fault::CloseOnMessage),
                    Mode::Slow => {
                        mock.set_fault(Fault::Up);
                        mock.set_slow(60);
                    }
                    Mode::RefuseNew => mock.set_fault(Fault::Down),
                }
                if !matches!(m, Mode::Up | Mode::Slow) {
                    ever_faulty[r] = true;
                }
                mode[r] = m;
            }
            Step::Ban(r, secs) => {
                if nrep == 0 {
                    continue;
                }
                let r = *r as usize % nrep;
                let (m, e) = admin.simple(&format!("BAN {} {}", replica_ip(r), secs), wire::T_REPLY).await;
                if !matches!(e, ReadEnd::Ready(_)) || m.iter().any(|x| x.code == b'E') {
                    bail!("ban-command-failed", format!("BAN {} {} -> {:?} {:?}", replica_ip(r), secs, e, crate::cli::errors(&m)));
                }
                // BAN of a host that is already banned (or whose expired ban has not been purged yet: expiry is
                // lazy) is answered with zero rows and changes nothing
                let took_effect = m.iter().any(|x| x.code == b'D');
                if took_effect {
                    stale.insert(r);
                    banned.insert(r, (Instant::now(), *secs as i64));
                    ban_reason.insert(r, format!("AdminBan({})", secs));
                } else {
                    o.label("ban_command_without_effect");
                }
                observe!(format!("step {} BAN r{}", si, r), none, None::<usize>);
                // (a 1 s ban can already show zero whole seconds remaining and is then not listed)
                if took_effect && *secs > 1 && !banned.contains_key(&r) {
                    bail!("admin-ban-not-listed", format!("BAN {} was acknowledged but SHOW BANS does not list it", replica_ip(r)));
                }
            }
            Step::BanShard(sh) => {
                let sh = *sh as usize % nsh;
                for r in reps_of(sh) {
                    let (m, e) = admin.simple(&format!("BAN {} 30", replica_ip(r)), wire::T_REPLY).await;
                    if !matches!(e, ReadEnd::Ready(_)) {
                        bail!("ban-command-failed", format!("BAN {} 30 -> {:?}", replica_ip(r), e));
                    }
                    if m.iter().any(|x| x.code == b'D') {
                        stale.insert(r);
                        banned.insert(r, (Instant::now(), 30));
                        ban_reason.insert(r, "AdminBan(30)".into());
                    }
                }
                o.label("ban_whole_shard");
                observe!(format!("step {} BAN of every replica of shard {}", si, sh), none, None::<usize>);
            }
            Step::BanPrimaryHost => {
                if !c.primary {
                    continue;
                }
                let (_m, e) = admin.simple(&format!("BAN {} 30", PRIMARY_IP), wire::T_REPLY).await;
                if !matches!(e, ReadEnd::Ready(_)) {
                    bail!("ban-command-failed", format!("BAN {} 30 -> {:?}", PRIMARY_IP, e));
                }
                o.label("ban_primary_host");
                observe!(format!("step {} BAN of the primaries' host", si), none, None::<usize>);
            }
            Step::Unban(r) => {
                if nrep == 0 {
                    continue;
                }
                let r = *r as usize % nrep;
                let (_m, e) = admin.simple(&format!("UNBAN {}", replica_ip(r)), wire::T_REPLY).await;
                if !matches!(e, ReadEnd::Ready(_)) {
                    bail!("unban-command-failed", format!("UNBAN -> {:?}", e));
                }
                observe!(format!("step {} UNBAN r{}", si, r), none, Some(r));
                if banned.contains_key(&r) {
                    bail!("unban-ignored", format!("UNBAN {} was acknowledged but SHOW BANS still lists it", replica_ip(r)));
                }
            }
            Step::Sleep => {
                tokio::time::sleep(Duration::from_millis(2300)).await;
                observe!(format!("step {} sleep", si), none, None::<usize>);
            }
            Step::HoldTxn(sh) => {
                let shard = *sh as usize % nsh;
                // (one held transaction per history: with pool_size 2 a second one could exhaust a replica's pool, and a
                // checkout that times out on an exhausted pool gets that healthy replica banned - pgcat's behaviour, not at issue)
                if reps_of(shard).is_empty() || !holders.is_empty() {
                    continue;
                }
                cid += 1;
                let mut cli = match env.client(cid, "u", "db", "pw", &[]).await {
                    Ok(c) => c,
                    Err(e) => bail!("login-failed", format!("step {}: {}", si, e)),
                };
                let mut ok = true;
                for cmd in [format!("SET SHARD TO '{}'", shard), "SET SERVER ROLE TO 'replica'".to_string()] {
                    let (_m, e) = cli.simple(&cmd, wire::T_REPLY).await;
                    ok &= matches!(e, ReadEnd::Ready(_));
                }
                let t = cli.tag();
                let (m, e) = cli.simple(&format!("{} BEGIN", t.render()), Duration::from_secs(6)).await;
                ok &= matches!(e, ReadEnd::Ready(b'T')) && crate::cli::errors(&m).is_empty();
                let on: Vec<usize> = env.log().iter().filter_map(|ev| match &ev.kind {
                    EvKind::Rx { tags, .. } if tags.contains(&t) => Some(ev.server),
                    _ => None,
                }).collect();
                // (bans that happened during this checkout are picked up by the next observation)
                for r in reps_of(shard) {
                    if !matches!(mode[r], Mode::Up | Mode::Slow) {
                        ever_faulty[r] = true;
                    }
                }
                let all_may: Vec<usize> = if reps_of(shard).iter().all(|r| banned.contains_key(r) || stale.contains(r) || ever_faulty[*r]) { vec![shard] } else { vec![] };
                observe!(format!("step {} held transaction", si), all_may, None::<usize>);
                if ok && on.len() == 1 && on[0] >= np {
                    holders.push((cli, on[0] - np));
                    o.label("held_transaction_on_replica");
                }
            }
            Step::ReloadPool => {
                // (a held transaction lives on the old pool object: keep the two features apart; and a rebuilt pool is validated
                // at the next login, which needs every shard reachable - so only while everything is up)
                if !holders.is_empty() || mode.iter().any(|m| !matches!(m, Mode::Up | Mode::Slow)) {
                    continue;
                }
                reload_gen += 1;
                env.pg.write_config(&config_gen(&env.mocks, c, reload_gen).to_toml(env.pg.port));
                let (m, e) = admin.simple("RELOAD", wire::T_REPLY).await;
                if !matches!(e, ReadEnd::Ready(_)) || m.iter().any(|x| x.code == b'E') {
                    o.inconclusive = Some(format!("RELOAD of a valid file failed: {:?} {:?}", e, crate::cli::errors(&m)));
                    break;
                }
                o.label("pool_rebuilt_by_reload");
                if !banned.is_empty() {
                    o.label("reload_with_bans_in_force");
                }
                // a ban is about the server, not about the pool object: it ends by expiry, UNBAN or the all-banned rule only
                observe!(format!("step {} RELOAD that rebuilds the pool", si), none, None::<usize>);
                // the first login validates the new pool (a connection to every server)
                cid += 1;
                match env.client(cid, "u", "db", "pw", &[]).await {
                    Ok(mut w) => {
                        w.send(&proto::terminate()).await;
                        w.close();
                    }
                    Err(e) => {
                        o.inconclusive = Some(format!("login after the reload: {}", e));
                        break;
                    }
                }
            }
            Step::RefuseNewOnHeld => {
                if let Some((_, r)) = holders.last() {
                    let r = *r;
                    env.mocks[np + r].set_slow(0);
                    env.mocks[np + r].set_fault(Fault::Down);
                    ever_faulty[r] = true;
                    mode[r] = Mode::RefuseNew;
                    o.label("replica_refuses_new_connections_while_held");
                }
            }
            Step::Txn(..) | Step::TxnHangMidReply(..) => {
                let (shard, role, write, hang_mid) = match st {
                    Step::Txn(s, r, w) => (*s as usize % nsh, *r % 3, *w, false),
                    Step::TxnHangMidReply(s, r) => (*s as usize % nsh, *r % 2, false, true),
                    _ => unreachable!(),
                };
                if hang_mid && !c.statement_timeout {
                    continue;
                }
                // sample the ban list right before
                observe!(format!("before step {}", si), none, None::<usize>);
                let reps = reps_of(shard);
                let banned_before: HashSet<usize> = banned.keys().cloned().filter(|r| reps.contains(r)).collect();
                let certainly: HashSet<usize> = banned.iter().filter(|(_, (since, dur))| (since.elapsed().as_millis() as i64) < dur * 1000 - 1200).map(|(r, _)| *r).collect();
                // candidates by role
                let use_primary = c.primary && role != 1;
                let use_replicas = role != 2;
                let cand_reps: Vec<usize> = if use_replicas { reps.clone() } else { vec![] };
                let n_cand = cand_reps.len() + use_primary as usize;
                if n_cand == 0 {
                    continue;
                }
                let healthy_unbanned_rep = cand_reps.iter().any(|r| !ever_faulty[*r] && !banned_before.contains(r));
                let usable = use_primary || healthy_unbanned_rep;
                let faulty_present = cand_reps.iter().any(|r| !matches!(mode[*r], Mode::Up | Mode::Slow));
                if faulty_present && (use_primary || healthy_unbanned_rep) {
                    o.nontrivial = true;
                }
                // the all-replicas-banned rule can fire in this shard if every replica of it is banned, may
                // have an unpurged entry, or is faulty and may be banned during this very checkout
                let all_may_be_banned = !reps.is_empty() && reps.iter().all(|r| banned_before.contains(r) || stale.contains(r) || ever_faulty[*r]);
                // (e) every replica certainly banned and at least one of them healthy: the rule must fire
                let all_certainly_banned = !reps.is_empty() && reps.iter().all(|r| certainly.contains(r));
                let must_unban_all = use_replicas && all_certainly_banned && reps.iter().any(|r| !ever_faulty[*r]);
                cid += 1;
                let mut cli = match env.client(cid, "u", "db", "pw", &[]).await {
                    Ok(c) => c,
                    Err(e) => bail!("login-failed", format!("step {}: {}", si, e)),
                };
                let role_name = ["any", "replica", "primary"][role as usize];
                for cmd in [format!("SET SHARD TO '{}'", shard), format!("SET SERVER ROLE TO '{}'", role_name)] {
                    let (_m, e) = cli.simple(&cmd, wire::T_REPLY).await;
                    if !matches!(e, ReadEnd::Ready(_)) {
                        bail!("custom-command-failed", format!("{} -> {:?}", cmd, e));
                    }
                }
                let t = cli.tag();
                let sql = if hang_mid {
                    format!("{} SELECT v FROM t /*@ rows=100 rowlen=200 hangafter=9000 */", t.render())
                } else if write {
                    format!("{} INSERT INTO t (v) VALUES (1)", t.render())
                } else {
                    format!("{} SELECT v FROM t", t.render())
                };
                let started = Instant::now();
                cli.send(&proto::query(&sql)).await;
                let limit = Duration::from_millis(n_cand as u64 * 2 * 250 + if c.statement_timeout { 350 } else { 0 } + 2000);
                let (m, e) = cli.read_until_ready(limit + Duration::from_secs(3)).await;
                let took = started.elapsed();
                let started_us = started.duration_since(lag_t0).as_micros() as u64;
                let harness_lag_ms = lag.lag_ms_between(started_us, started_us + took.as_micros() as u64);
                let served_on: Vec<usize> = env.log().iter().filter_map(|ev| match &ev.kind {
                    EvKind::Rx { tags, .. } if tags.contains(&t) => Some(ev.server),
                    _ => None,
                }).collect();
                let errors = crate::cli::errors(&m);
                let ok_reply = matches!(e, ReadEnd::Ready(_)) && errors.is_empty();
                let class = format!("role={}:cands={}:{}{}", role_name, n_cand, if faulty_present { "fault" } else { "nofault" }, if hang_mid { ":hang_mid_reply" } else { "" });
                o.label(&format!("txn:{}", role_name));
                if e == ReadEnd::Timeout {
                    bail!(&format!("client-blocked-indefinitely:{}", class), format!("step {}: no answer after {:?} (modes {:?}, banned {:?})", si, took, mode, banned_before));
                }
                if took > limit {
                    bail!(&format!("failover-too-slow:{}", class), format!("step {}: the transaction took {:?}, limit {:?} (modes {:?})", si, took, limit, mode));
                }
                for sv in &served_on {
                    // shard and role honoured
                    let (sv_shard, is_primary) = if *sv < np { (*sv, true) } else { (shard_of(sv - np), false) };
                    if sv_shard != shard {
                        bail!("wrong-shard", format!("step {}: shard {} selected but the statement ran on {}", si, shard, env.mocks[*sv].label));
                    }
                    if (role == 1 && is_primary) || (role == 2 && !is_primary) {
                        bail!("wrong-role-substituted", format!("step {}: role {} requested but the statement ran on {}", si, role_name, env.mocks[*sv].label));
                    }
                    // (a) never on a certainly banned replica unless the all-banned rule may have fired
                    if !is_primary {
                        let r = sv - np;
                        if certainly.contains(&r) && !all_may_be_banned {
                            bail!(&format!("statement-on-banned-replica:{}", class), format!("step {}: statement {} ran on r{} which was banned (bans before: {:?}, modes {:?})", si, t.short(), r, banned_before, mode));
                        }
                    }
                }
                let unban_all_shards: Vec<usize> = if all_may_be_banned { vec![shard] } else { vec![] };
                if hang_mid {
                    // the reply stalls after the first chunk: the client must be told (statement timeout), and
                    // the replica that stalled must end up banned
                    if ok_reply {
                        bail!("stalled-reply-reported-complete", format!("step {}: a reply that stops after 9 kB was delivered as complete", si));
                    }
                    for sv in &served_on {
                        if *sv >= np {
                            ever_faulty[sv - np] = true;
                        }
                    }
                    observe!(format!("step {} (reply stalled mid-stream)", si), unban_all_shards, None::<usize>);
                    if let Some(r) = served_on.iter().filter(|sv| **sv >= np).map(|sv| sv - np).next() {
                        // (with ban_time = 1 s a ban can expire within the same second and is then not listed)
                        if !banned.contains_key(&r) && !c.ban_time_short {
                            bail!("broken-replica-not-banned", format!("step {}: r{} stalled mid-reply (client got {:?} / {:?}) but is not in SHOW BANS", si, r, e, errors));
                        }
                    }
                    o.label("stalled_mid_reply");
                    continue;
                }
                // a transaction that was served but only after a connect-timeout's worth of waiting: a candidate failed its
                // checkout, so that candidate (a replica: the primaries are never faulty here) must now be banned - otherwise every
                // later checkout pays the same timeout again
                let waited_ms = (took.as_millis() as u64).saturating_sub(harness_lag_ms);
                // (when every replica of the shard may be banned the unban-all rule can lift the new ban again within the same checkout)
                let stalled_but_served = ok_reply && !c.ban_time_short && !all_may_be_banned && waited_ms >= 195 && !cand_reps.iter().any(|r| mode[*r] == Mode::Slow);
                if stalled_but_served {
                    let suspects: Vec<usize> = cand_reps.iter().cloned().filter(|r| (ever_faulty[*r] || !matches!(mode[*r], Mode::Up | Mode::Slow)) && !banned_before.contains(r)).collect();
                    if !suspects.is_empty() {
                        observe!(format!("step {} (served after a stall)", si), unban_all_shards.clone(), None::<usize>);
                        o.label("served_after_checkout_stall");
                        if suspects.iter().all(|r| !banned.contains_key(r)) {
                            bail!(&format!("stalled-on-replica-not-banned:{}", class), format!("step {}: the transaction was served only after {} ms (harness lag {} ms; connect_timeout 200 ms), so a candidate failed its checkout, yet none of the faulty candidates {:?} (modes {:?}) is in SHOW BANS afterwards", si, took.as_millis(), harness_lag_ms, suspects, mode));
                        }
                    }
                }
                if !ok_reply {
                    // a candidate replica that is (or was) faulty may have cost this one transaction (dead or hung
                    // pooled connection, death mid-statement); a banned broken replica can come back through the
                    // all-replicas-banned rule. It must then be (re)banned.
                    let suspects: Vec<usize> = cand_reps.iter().cloned().filter(|r| ever_faulty[*r] && (!banned_before.contains(r) || all_may_be_banned)).collect();
                    if !suspects.is_empty() {
                        o.label("transaction_lost_to_broken_replica");
                        observe!(format!("step {} (a broken replica cost the transaction)", si), unban_all_shards, None::<usize>);
                        let hit: Vec<usize> = served_on.iter().filter(|sv| **sv >= np).map(|sv| sv - np).collect();
                        if let Some(r) = hit.iter().find(|r| ever_faulty[**r] && !banned.contains_key(*r) && !c.ban_time_short) {
                            bail!("broken-replica-not-banned", format!("step {}: the statement reached r{} (mode {:?}) and failed ({:?} / {:?}) but r{} is not in SHOW BANS", si, r, mode[*r], e, errors, r));
                        }
                        continue;
                    }
                    if usable {
                        bail!(&format!("refused-although-usable-server:{}", class), format!("step {}: shard {} role {} with primary={} modes {:?} banned-before {:?}: the client got {:?} / {:?}", si, shard, role_name, c.primary, mode, banned_before, e, errors));
                    }
                    if must_unban_all {
                        bail!(&format!("all-replicas-banned-not-unbanned:{}", class), format!("step {}: every replica of shard {} was banned ({:?}) and at least one is healthy, yet the checkout was refused ({:?})", si, shard, banned_before, errors));
                    }
                    o.label("refused_no_usable_server");
                } else {
                    o.label("served");
                }
                observe!(format!("step {} transaction", si), unban_all_shards, None::<usize>);
            }
        }
    }
    for (mut h, _) in holders.drain(..) {
        let _ = h.simple("COMMIT", Duration::from_secs(2)).await;
        h.send(&proto::terminate()).await;
        h.close();
    }
    lag.stop();
    // ---- expiry epilogue: "a ban ends after ban_time". Everything is brought up, stale pooled connections are flushed, the
    // 1-second bans are left to expire, and then replica-role transactions must reach every replica of the shard again
    // (load balancing picks among unbanned candidates at random when the pool is idle: a replica that is never chosen in
    // n transactions with probability < 1e-7 is still banned)
    if c.expiry_probe && c.ban_time_short && !stale.is_empty() {
        // "recovered" = restarted: sessions that hang at start-up or in a query are gone with the old process (left hanging,
        // they would occupy the pooler's connection slots for that replica for ever, which is not what a recovery looks like)
        for r in 0..nrep {
            env.mocks[np + r].set_slow(0);
            env.mocks[np + r].set_fault(Fault::Up);
            env.mocks[np + r].kill_sessions();
        }
        let shards_to_probe: Vec<usize> = (0..nsh).filter(|s| reps_of(*s).len() >= 2 && reps_of(*s).iter().any(|r| stale.contains(r))).collect();
        if !shards_to_probe.is_empty() {
            // round A: flush connections that died with their replica (may cost transactions and re-ban for a second)
            for sh in &shards_to_probe {
                for _ in 0..24 {
                    cid += 1;
                    let _ = replica_txn(&env, cid, *sh).await;
                }
            }
            tokio::time::sleep(Duration::from_millis(2400)).await;
            for sh in &shards_to_probe {
                let reps = reps_of(*sh);
                // a 30-second admin ban is still running: nothing to expect for this shard
                if reps.iter().any(|r| banned.get(r).map(|(since, dur)| *dur > 1 && (since.elapsed().as_secs() as i64) <= *dur + 1).unwrap_or(false)) {
                    continue;
                }
                let n = match reps.len() {
                    2 => 26,
                    3 => 42,
                    _ => 60,
                };
                // a replica whose pooled connections died with it can be banned once more (for a second) when such a
                // connection fails its health check: then the probe is repeated after that ban has expired as well
                for attempt in 0..4 {
                    let mut hits: HashMap<usize, u32> = HashMap::new();
                    let mut clean = true;
                    for _ in 0..n {
                        cid += 1;
                        match replica_txn(&env, cid, *sh).await {
                            Some(servers) => {
                                for sv in servers {
                                    if sv >= np {
                                        *hits.entry(sv - np).or_default() += 1;
                                    }
                                }
                            }
                            None => clean = false,
                        }
                    }
                    o.label("expiry_probe");
                    let missing: Vec<usize> = reps.iter().cloned().filter(|r| !hits.contains_key(r)).collect();
                    if missing.is_empty() {
                        break;
                    }
                    let bans = show_bans(&mut admin).await.unwrap_or_default();
                    let listed = |r: usize| bans.keys().any(|k| k.starts_with(&format!("{}|", replica_ip(r))));
                    // (SHOW BANS does not list a 1-second ban whose remaining whole seconds are already zero although it
                    // is still in force, so an unlisted replica is only judged on the last attempt: each earlier re-ban
                    // used up one of the replica's at most two stale connections)
                    if attempt < 3 || !clean || missing.iter().any(|r| listed(*r)) {
                        o.label("expiry_probe_repeated");
                        if attempt < 3 {
                            tokio::time::sleep(Duration::from_millis(2400)).await;
                        }
                        continue;
                    }
                    o.fail(
                        "expired-ban-never-lifted",
                        format!("every replica of shard {} is up, all 1-second bans are over and SHOW BANS ({:?}) does not list r{}, yet it received none of {} replica-role transactions (hits {:?}, load balancing {}); case {:?}", sh, bans, missing[0], n, hits, if c.loc { "loc" } else { "random" }, c),
                    );
                    break;
                }
                if o.violation.is_some() {
                    break;
                }
            }
        }
    }
    let mut env = env;
    if !env.pg.alive() {
        o.fail("pgcat-died", format!("pgcat exited: {}", env.pg.stderr_tail(500)));
    }
    env.finish().await;
    o
}

/// One autocommit read with role 'replica' on a shard through a fresh client; Some(backends that received it) when it was
/// answered without error.
async fn replica_txn(env: &Env, cid: u32, shard: usize) -> Option<Vec<usize>> {
    let mut cli = env.client(cid, "u", "db", "pw", &[]).await.ok()?;
    for cmd in [format!("SET SHARD TO '{}'", shard), "SET SERVER ROLE TO 'replica'".to_string()] {
        let (_m, e) = cli.simple(&cmd, wire::T_REPLY).await;
        if !matches!(e, ReadEnd::Ready(_)) {
            return None;
        }
    }
    let t = cli.tag();
    let (m, e) = cli.simple(&format!("{} SELECT v FROM t", t.render()), Duration::from_secs(4)).await;
    let ok = matches!(e, ReadEnd::Ready(_)) && crate::cli::errors(&m).is_empty();
    cli.send(&proto::terminate()).await;
    cli.close();
    if !ok {
        return None;
    }
    Some(env.log().iter().filter_map(|ev| match &ev.kind {
        EvKind::Rx { tags, .. } if tags.contains(&t) => Some(ev.server),
        _ => None,
    }).collect())
}
