//! C10 — a cancel request reaches only the requester's own running server session.

use crate::cli::{Cli, ReadEnd};
use crate::engine::{Outcome, Part, PartReport, Tier, WorkerCtx};
use crate::mock::{self, EvKind};
use crate::pgc::{self, PgcatConfig, ServerDef};
use crate::proto;
use crate::sqllex::Tag;
use crate::wire::{self, BackendSpec, Env};
use proptest::prelude::*;
use serde::{Deserialize, Serialize};
use std::time::Duration;

pub fn check(tier: Tier, seed: u64, replay: (Option<&str>, Option<&str>)) -> Vec<PartReport> {
    crate::run_parts!(tier, seed, replay, [WirePart])
}

#[derive(Clone, Debug, Serialize, Deserialize, PartialEq)]
pub enum Variant {
    Exact,
    WrongSecret,
    WrongPid,
    Random,
}

#[derive(Clone, Debug, Serialize, Deserialize)]
pub enum Step {
    /// client sends an autocommit statement whose reply the backend holds
    Held(u8),
    /// release the held statement of that client and read the reply
    Release(u8),
    Begin(u8),
    Commit(u8),
    /// close the client's socket, whatever it is doing
    Drop(u8),
    /// CancelRequest with (a variant of) that client's key
    Cancel(u8, Variant),
    /// (only with idle_client_in_transaction_timeout) the client sits in its transaction until the pooler ends it
    IdleOut(u8),
}

#[derive(Clone, Debug, Serialize, Deserialize)]
pub struct Case {
    pub clients: u8,
    pub pool_size: u8,
    pub session_mode: bool,
    pub workers: u8,
    /// idle_client_in_transaction_timeout = 700 ms
    #[serde(default)]
    pub idle_timeout: bool,
    pub steps: Vec<Step>,
}

const IDLE_MS: u64 = 700;

pub struct WirePart;

impl Part for WirePart {
    type Case = Case;
    fn prop(&self) -> &'static str {
        "C10"
    }
    fn name(&self) -> &'static str {
        "wire"
    }
    fn wire(&self) -> bool {
        true
    }
    fn rule(&self) -> String {
        "2..4 clients on a pool of 1..3 connections, transaction or session mode; histories of 3..14 steps over {statement held at the backend, release, BEGIN, COMMIT, socket drop (idle, inside a transaction, with a statement in flight), the pooler ending a transaction after idle_client_in_transaction_timeout (30% of the cases, both pool modes), CancelRequest with a client's exact key / same pid wrong secret / wrong pid same secret / random key}; the model tracks which backend connection each client currently borrows; oracle: after each CancelRequest has been fully processed (pgcat closed the cancel socket) the backends have received exactly one CancelRequest carrying that connection's own BackendKeyData if the key is exact and the client borrows a connection, and none otherwise. Non-trivial = a cancel sent while at least two clients had work in flight, or with the key of a client that no longer holds a connection".into()
    }
    fn cases(&self, tier: Tier) -> u64 {
        tier.pick(1_600, 20_000)
    }
    fn strategy(&self, _tier: Tier) -> BoxedStrategy<Case> {
        let variant = prop_oneof![5 => Just(Variant::Exact), 2 => Just(Variant::WrongSecret), 2 => Just(Variant::WrongPid), 1 => Just(Variant::Random)];
        let step = prop_oneof![
            7 => (0u8..4).prop_map(Step::Held),
            2 => (0u8..4).prop_map(Step::Release),
            3 => (0u8..4).prop_map(Step::Begin),
            1 => (0u8..4).prop_map(Step::Commit),
            2 => (0u8..4).prop_map(Step::Drop),
            6 => ((0u8..4), variant).prop_map(|(c, v)| Step::Cancel(c, v)),
            1 => (0u8..4).prop_map(Step::IdleOut),
        ];
        (2u8..=4, 1u8..=3, prop::bool::weighted(0.3), prop_oneof![Just(1u8), Just(2u8), Just(4u8)], prop::bool::weighted(0.3), prop::collection::vec(step, 3..15), (any::<u16>(), 0u8..4, 0u8..4))
            .prop_map(|(clients, pool_size, session_mode, workers, idle_timeout, steps, (at, k, other))| {
                // (in session mode too: the pooler takes the server away from a client that stays connected)
                // the step only exists where the timeout is configured
                let mut steps: Vec<Step> = steps.into_iter().filter(|s| idle_timeout || !matches!(s, Step::IdleOut(_))).collect();
                if idle_timeout {
                    // make sure the interesting history occurs: a transaction is ended by the timeout, somebody else borrows
                    // a connection, then the timed-out client's key is used
                    let pos = crate::engine::pick(at, steps.len() + 1);
                    let block = vec![Step::Begin(k), Step::IdleOut(k), Step::Held(other), Step::Cancel(k, Variant::Exact)];
                    steps.splice(pos..pos, block);
                }
                Case { clients, pool_size, session_mode, workers, idle_timeout, steps }
            })
            .boxed()
    }
    fn run(&self, c: &Case, ctx: &mut WorkerCtx) -> Outcome {
        wire::run_async(run_case(c, ctx))
    }
}

#[derive(Clone, Debug, PartialEq)]
enum St {
    Idle,
    /// statement held at the backend on this conn (tag)
    InFlight(u64, Tag, bool),
    /// inside BEGIN on this conn
    InTxn(u64),
    /// session mode: owns this conn until it disconnects
    Owns(u64),
    Closed,
}

fn config(mocks: &[crate::mock::MockServer], c: &Case) -> PgcatConfig {
    let mut cfg = PgcatConfig::new();
    cfg.set_general("worker_threads", &c.workers.to_string());
    cfg.set_general("connect_timeout", "3000");
    if c.idle_timeout {
        cfg.set_general("idle_client_in_transaction_timeout", &IDLE_MS.to_string());
    }
    let servers = vec![ServerDef { host: mocks[0].ip.clone(), port: mocks[0].port, role: "primary".into() }];
    let mut pool = pgc::simple_pool("db", "u", "pw", c.pool_size as u32, servers);
    if c.session_mode {
        pool.set("pool_mode", "\"session\"");
    }
    cfg.pools.push(pool);
    cfg
}

async fn barrier(cli: &mut Cli) -> bool {
    // a pooler-handled command: its reply proves the client task is back in its outer loop
    let (_m, e) = cli.simple("SHOW SHARD", wire::T_REPLY).await;
    matches!(e, ReadEnd::Ready(_))
}

async fn client_gone(env: &Env, app: &str) -> bool {
    let mut a = match env.admin().await {
        Ok(a) => a,
        Err(_) => return false,
    };
    let deadline = std::time::Instant::now() + Duration::from_secs(3);
    loop {
        let rows = wire::admin_query(&mut a, "SHOW CLIENTS").await.unwrap_or_default();
        if !rows.iter().any(|r| r.get("application_name").map(|x| x == app).unwrap_or(false)) {
            return true;
        }
        if std::time::Instant::now() > deadline {
            return false;
        }
        tokio::time::sleep(Duration::from_millis(10)).await;
    }
}

async fn run_case(c: &Case, ctx: &mut WorkerCtx) -> Outcome {
    let mut o = Outcome::pass();
    let env = match Env::start(ctx, &[BackendSpec::trust("127.0.0.1", "p0")], |m| config(m, c)).await {
        Ok(e) => e,
        Err(e) => {
            o.inconclusive = Some(e);
            return o;
        }
    };
    let n = c.clients as usize;
    let mut clis: Vec<Cli> = vec![];
    for i in 0..n {
        let app = format!("c{}", i + 1);
        match env.client(i as u32 + 1, "u", "db", "pw", &[("application_name", &app)]).await {
            Ok(cl) => clis.push(cl),
            Err(e) => {
                o.inconclusive = Some(format!("login: {}", e));
                env.finish().await;
                return o;
            }
        }
    }
    let keys: Vec<(i32, i32)> = clis.iter().map(|c| (c.backend_pid, c.backend_key)).collect();
    let mut st: Vec<St> = vec![St::Idle; n];
    // when each client last became idle-in-transaction (only meaningful with idle_timeout)
    let mut idle_since: Vec<std::time::Instant> = vec![std::time::Instant::now(); n];
    let holders = |st: &Vec<St>| st.iter().filter(|s| matches!(s, St::InFlight(..) | St::InTxn(_) | St::Owns(_))).count();
    let mut cancels_seen = 0usize;
    let conn_of = |env: &Env, t: Tag| -> Option<u64> { env.shared.find_tag(t).map(|e| e.conn) };
    o.label(if c.session_mode { "session" } else { "transaction" });

    'steps: for (si, step) in c.steps.iter().enumerate() {
        o.sub_evaluations += 1;
        if c.idle_timeout && !matches!(step, Step::IdleOut(_)) {
            // a client that has been idle in its transaction for more than half the timeout may be ended by the pooler at any
            // moment: the model cannot say what it holds, so the history stops here (nothing is judged after this point)
            // (pgcat applies the timeout to every client that holds a server and sends nothing - in session mode also to one
            // that is not inside a transaction)
            if (0..n).any(|j| matches!(st[j], St::InTxn(_) | St::Owns(_)) && idle_since[j].elapsed() > Duration::from_millis(IDLE_MS / 2)) {
                o.label("stopped:idle-in-transaction-too-long");
                break 'steps;
            }
        }
        match step {
            Step::Held(k) => {
                let i = *k as usize % n;
                let can = match &st[i] {
                    St::Idle => holders(&st) < c.pool_size as usize,
                    St::InTxn(_) | St::Owns(_) => true,
                    _ => false,
                };
                if !can {
                    continue;
                }
                let t = clis[i].tag();
                clis[i].send(&proto::query(&format!("{} SELECT v FROM t /*@ hold */", t.render()))).await;
                match env.shared.wait_tag(t, wire::T_REPLY).await {
                    Some(ev) => {
                        let in_txn = matches!(st[i], St::InTxn(_));
                        st[i] = St::InFlight(ev.conn, t, in_txn);
                    }
                    None => {
                        o.inconclusive = Some(format!("step {}: held statement of c{} never reached a backend", si, i + 1));
                        break 'steps;
                    }
                }
            }
            Step::Release(k) => {
                let i = *k as usize % n;
                if let St::InFlight(conn, t, in_txn) = st[i].clone() {
                    env.shared.release(t);
                    let (_m, e) = clis[i].read_until_ready(wire::T_REPLY).await;
                    if !matches!(e, ReadEnd::Ready(_)) {
                        o.inconclusive = Some(format!("step {}: released statement of c{} ended {:?}", si, i + 1, e));
                        break 'steps;
                    }
                    if in_txn {
                        idle_since[i] = std::time::Instant::now();
                        st[i] = St::InTxn(conn);
                    } else if c.session_mode {
                        idle_since[i] = std::time::Instant::now();
                        st[i] = St::Owns(conn);
                    } else {
                        if !barrier(&mut clis[i]).await {
                            o.inconclusive = Some("barrier failed".into());
                            break 'steps;
                        }
                        st[i] = St::Idle;
                    }
                }
            }
            Step::Begin(k) => {
                let i = *k as usize % n;
                let can = match &st[i] {
                    St::Idle => holders(&st) < c.pool_size as usize,
                    St::Owns(_) => true,
                    _ => false,
                };
                if !can {
                    continue;
                }
                let t = clis[i].tag();
                let (_m, e) = clis[i].simple(&format!("{} BEGIN", t.render()), wire::T_REPLY).await;
                if !matches!(e, ReadEnd::Ready(_)) {
                    o.inconclusive = Some(format!("step {}: BEGIN of c{} ended {:?}", si, i + 1, e));
                    break 'steps;
                }
                idle_since[i] = std::time::Instant::now();
                match conn_of(&env, t) {
                    Some(conn) => st[i] = St::InTxn(conn),
                    None => {
                        o.inconclusive = Some("BEGIN reached no backend".into());
                        break 'steps;
                    }
                }
            }
            Step::Commit(k) => {
                let i = *k as usize % n;
                if let St::InTxn(conn) = st[i].clone() {
                    let t = clis[i].tag();
                    let (_m, e) = clis[i].simple(&format!("{} COMMIT", t.render()), wire::T_REPLY).await;
                    if !matches!(e, ReadEnd::Ready(_)) {
                        o.inconclusive = Some(format!("step {}: COMMIT of c{} ended {:?}", si, i + 1, e));
                        break 'steps;
                    }
                    if c.session_mode {
                        idle_since[i] = std::time::Instant::now();
                        st[i] = St::Owns(conn);
                    } else {
                        if !barrier(&mut clis[i]).await {
                            o.inconclusive = Some("barrier failed".into());
                            break 'steps;
                        }
                        st[i] = St::Idle;
                    }
                }
            }
            Step::Drop(k) => {
                let i = *k as usize % n;
                if st[i] == St::Closed {
                    continue;
                }
                clis[i].close();
                if let St::InFlight(_, t, _) = st[i].clone() {
                    // pgcat is waiting for the backend and only notices the dead client when the reply arrives
                    tokio::time::sleep(Duration::from_millis(5)).await;
                    env.shared.release(t);
                }
                if !client_gone(&env, &format!("c{}", i + 1)).await {
                    o.inconclusive = Some(format!("step {}: pgcat still lists c{} 3 s after its socket closed", si, i + 1));
                    break 'steps;
                }
                tokio::time::sleep(Duration::from_millis(30)).await;
                st[i] = St::Closed;
                o.label("client_dropped");
            }
            Step::IdleOut(k) => {
                let i = *k as usize % n;
                if !c.idle_timeout || !matches!(st[i], St::InTxn(_)) {
                    continue;
                }
                // other clients idle in a transaction (or, in session mode, idle on a server of their own) would time out as
                // well: only when this is the only one
                if (0..n).any(|j| j != i && matches!(st[j], St::InTxn(_) | St::Owns(_))) {
                    continue;
                }
                let (msgs, e) = clis[i].read_until_ready(Duration::from_millis(IDLE_MS * 4)).await;
                let told = msgs.iter().any(|m| m.code == b'E');
                if !told {
                    o.inconclusive = Some(format!("step {}: c{} was not told about the idle-in-transaction timeout ({:?})", si, i + 1, e));
                    break 'steps;
                }
                if !barrier(&mut clis[i]).await {
                    o.inconclusive = Some("barrier failed after idle-in-transaction timeout".into());
                    break 'steps;
                }
                st[i] = St::Idle;
                o.label("idle_in_transaction_timeout");
            }
            Step::Cancel(k, v) => {
                let i = *k as usize % n;
                let (pid, key) = keys[i];
                let (spid, skey) = match v {
                    Variant::Exact => (pid, key),
                    Variant::WrongSecret => (pid, key.wrapping_add(1)),
                    Variant::WrongPid => (pid.wrapping_add(1), key),
                    Variant::Random => (pid ^ 0x5a5a_5a5a, key ^ 0x1234_5678),
                };
                let busy = st.iter().filter(|s| matches!(s, St::InFlight(..) | St::InTxn(_))).count();
                if busy >= 2 || matches!(st[i], St::Closed | St::Idle) {
                    o.nontrivial = true;
                }
                let mut sock = match Cli::connect(900 + si as u32, &env.addr(), false).await {
                    Ok(s) => s,
                    Err(e) => {
                        o.inconclusive = Some(format!("cancel connect: {}", e));
                        break 'steps;
                    }
                };
                sock.send(&proto::cancel_request(spid, skey)).await;
                // causal barrier: pgcat closes the cancel connection when it is done with it
                let (_m, e) = sock.read_until_closed(Duration::from_secs(3)).await;
                if e != ReadEnd::Closed {
                    o.inconclusive = Some(format!("step {}: cancel connection not closed by pgcat ({:?})", si, e));
                    break 'steps;
                }
                tokio::time::sleep(Duration::from_millis(25)).await;
                let log = env.log();
                let got: Vec<(i32, i32)> = log.iter().filter_map(|e| match &e.kind {
                    EvKind::Cancel { pid, key } => Some((*pid, *key)),
                    _ => None,
                }).collect();
                let new = &got[cancels_seen.min(got.len())..];
                let target_conn = match (&st[i], v) {
                    (St::InFlight(conn, ..), Variant::Exact) | (St::InTxn(conn), Variant::Exact) | (St::Owns(conn), Variant::Exact) => Some(*conn),
                    _ => None,
                };
                let class = format!("{}:{}", match v { Variant::Exact => "exact", Variant::WrongSecret => "wrong_secret", Variant::WrongPid => "wrong_pid", Variant::Random => "random" }, match &st[i] { St::Idle => "idle", St::InFlight(..) => "in_flight", St::InTxn(_) => "in_txn", St::Owns(_) => "owns", St::Closed => "closed" });
                o.label(&format!("cancel:{}", class));
                match target_conn {
                    Some(conn) => {
                        let want = (mock::pid_for(0, conn), mock::key_for(conn));
                        if new.len() != 1 || new[0] != want {
                            o.fail(
                                &format!("cancel-not-delivered-to-own-session:{}", class),
                                format!("step {}: cancel with c{}'s key while it borrows backend conn {}: backends received {:?}, expected exactly [{:?}]; steps {:?}", si, i + 1, conn, new, want, c.steps),
                            );
                            break 'steps;
                        }
                    }
                    None => {
                        if !new.is_empty() {
                            // whose session was hit?
                            let victim = st.iter().enumerate().find_map(|(j, s)| match s {
                                St::InFlight(conn, ..) | St::InTxn(conn) | St::Owns(conn) if new.iter().any(|(p, _)| *p == mock::pid_for(0, *conn)) => Some(j + 1),
                                _ => None,
                            });
                            o.fail(
                                &format!("cancel-reached-a-server:{}", class),
                                format!("step {}: cancel ({:?}) with c{}'s key while it holds no server connection (state {:?}): backends received {:?} (session in use by c{:?}); steps {:?}", si, v, i + 1, st[i], new, victim, c.steps),
                            );
                            break 'steps;
                        }
                    }
                }
                cancels_seen = got.len();
            }
        }
    }
    env.shared.release_all();
    env.finish().await;
    o
}
