//! C15 — an accepted configuration is a servable configuration.

use crate::cli::ReadEnd;
use crate::engine::{Outcome, Part, PartReport, Tier, WorkerCtx};
use crate::mock::EvKind;
use crate::pgc::{PgcatConfig, PoolDef, ServerDef, ShardDef, UserDef};
use crate::wire::{self, BackendSpec, Env};
use proptest::prelude::*;
use serde::{Deserialize, Serialize};
use std::collections::{BTreeSet, HashMap};

pub fn check(tier: Tier, seed: u64, replay: (Option<&str>, Option<&str>)) -> Vec<PartReport> {
    #[cfg(feature = "lib")]
    {
        crate::run_parts!(tier, seed, replay, [LibPart, WirePart])
    }
    #[cfg(not(feature = "lib"))]
    {
        let mut v = vec![crate::engine::lib_unavailable("C15", "lib")];
        v.extend(crate::run_parts!(tier, seed, replay, [WirePart]));
        v
    }
}

#[derive(Clone, Debug, Serialize, Deserialize)]
pub struct ShardSpec {
    pub id: String,
    /// roles of the servers ("primary"/"replica"), `dup` repeats the first server verbatim
    pub roles: Vec<String>,
    pub dup_first: bool,
}

#[derive(Clone, Debug, Serialize, Deserialize)]
pub struct UserSpec {
    pub name: String,
    pub password: bool,
    pub pool_size: u8,
    pub min_pool_size: Option<u8>,
}

#[derive(Clone, Debug, Serialize, Deserialize)]
pub struct PoolSpec {
    pub shards: Vec<ShardSpec>,
    pub users: Vec<UserSpec>,
    pub default_shard: Option<String>,
    pub default_role: Option<String>,
    pub parser: bool,
    pub splitting: bool,
    pub sharding_key_regex: Option<String>,
    pub automatic_sharding_key: Option<String>,
    pub plugins: bool,
    pub auth_query: bool,
    /// which of the three auth_query settings are written when `auth_query` is false: 0 none, 1 user + password only,
    /// 2 query only, 3 query + user; with 4..7 the same at [general] level (first pool decides)
    #[serde(default)]
    pub auth_query_partial: u8,
}

#[derive(Clone, Debug, Serialize, Deserialize)]
pub struct Case {
    pub pools: Vec<PoolSpec>,
}

fn shard_ids_strategy() -> BoxedStrategy<Vec<String>> {
    prop_oneof![
        22 => (1usize..=4).prop_map(|n| (0..n).map(|i| i.to_string()).collect()),
        3 => (11usize..=12).prop_map(|n| (0..n).map(|i| i.to_string()).collect()),
        2 => Just(vec!["1".to_string(), "2".to_string()]),
        1 => Just(vec!["1".to_string()]),
        2 => Just(vec!["0".to_string(), "2".to_string()]),
        1 => Just(vec!["0".to_string(), "1".to_string(), "3".to_string()]),
        1 => Just(vec!["00".to_string(), "1".to_string()]),
        1 => Just(vec!["0".to_string(), "1".to_string(), "01".to_string()]),
        1 => Just(vec!["0".to_string(), "+1".to_string()]),
        1 => Just(vec!["-1".to_string(), "0".to_string()]),
        1 => Just(vec!["a".to_string(), "0".to_string()]),
        1 => Just(vec!["0".to_string(), "1.5".to_string()]),
        1 => Just(vec!["shard_0".to_string()]),
    ]
    .boxed()
}

fn roles_strategy() -> BoxedStrategy<(Vec<String>, bool)> {
    let p = || "primary".to_string();
    let r = || "replica".to_string();
    prop_oneof![
        8 => Just((vec![p()], false)),
        8 => Just((vec![p(), r()], false)),
        4 => Just((vec![r(), p(), r()], false)),
        3 => Just((vec![r()], false)),
        2 => Just((vec![r(), r()], false)),
        1 => Just((vec![], false)),
        1 => Just((vec![p(), p()], false)),
        1 => Just((vec![p(), r()], true)),
        1 => Just((vec![r()], true)),
    ]
    .boxed()
}

fn pool_strategy() -> BoxedStrategy<PoolSpec> {
    let users = prop::collection::vec(
        (prop::bool::weighted(0.95), 1u8..4, prop::option::weighted(0.15, 0u8..3)).prop_map(|(password, pool_size, min_pool_size)| UserSpec { name: String::new(), password, pool_size, min_pool_size }),
        1..3,
    );
    (
        (shard_ids_strategy(), prop::collection::vec(roles_strategy(), 13), users),
        prop_oneof![
            8 => Just(None),
            3 => (0usize..3).prop_map(|n| Some(format!("shard_{}", n))),
            1 => (3usize..13).prop_map(|n| Some(format!("shard_{}", n))),
            2 => Just(Some("random".to_string())),
            2 => Just(Some("random_healthy".to_string())),
            1 => prop_oneof![Just("shard_x"), Just("first"), Just("shard_-1"), Just("Random")].prop_map(|s| Some(s.to_string())),
        ],
        prop_oneof![
            6 => Just(None),
            6 => prop_oneof![Just("any"), Just("primary"), Just("replica")].prop_map(|s| Some(s.to_string())),
            1 => prop_oneof![Just("master"), Just("Primary"), Just("ANY"), Just("auto"), Just("")].prop_map(|s| Some(s.to_string())),
        ],
        (any::<bool>(), prop::bool::weighted(0.3), prop::bool::weighted(0.15), prop::bool::weighted(0.1), prop_oneof![10 => Just(0u8), 3 => 1u8..8]),
        prop_oneof![12 => Just(None), 3 => Just(Some(r"/\* sharding_key: (\d+) \*/".to_string())), 1 => Just(Some("(unclosed".to_string()))],
        prop_oneof![12 => Just(None), 3 => Just(Some("data.id".to_string())), 1 => Just(Some("id".to_string())), 1 => Just(Some("a.b.c".to_string()))],
    )
        .prop_map(|((ids, roles, users), default_shard, default_role, (parser, splitting, plugins, auth_query, auth_query_partial), sharding_key_regex, automatic_sharding_key)| {
            let shards = ids
                .iter()
                .enumerate()
                .map(|(i, id)| {
                    // most shards are healthy so that one defect at a time is the common case
                    let last = ids.len() - 1;
                    let (r, d) = if i == 0 {
                        roles[0].clone()
                    } else if i == last && roles[2].0.len() == 1 {
                        roles[1].clone()
                    } else {
                        (vec!["primary".to_string(), "replica".to_string()], false)
                    };
                    ShardSpec { id: id.clone(), roles: r, dup_first: d }
                })
                .collect();
            let users = users.into_iter().enumerate().map(|(i, mut u)| {
                u.name = format!("user{}", i);
                u
            }).collect();
            // splitting and plugins need the parser; leave a small fraction inconsistent on purpose
            let parser = parser || ((splitting || plugins) && ids.len() % 7 != 3);
            PoolSpec { shards, users, default_shard, default_role, parser, splitting, sharding_key_regex, automatic_sharding_key, plugins, auth_query, auth_query_partial: if auth_query { 0 } else { auth_query_partial } }
        })
        .boxed()
}

/// Turn a generated case into one the model accepts (used to keep the wire half from being mostly
/// start-up rejections): every defective dimension is replaced by a valid choice.
pub fn heal(mut c: Case) -> Case {
    for p in c.pools.iter_mut() {
        let n = p.shards.len();
        for (i, s) in p.shards.iter_mut().enumerate() {
            s.id = i.to_string();
            s.dup_first = false;
            if s.roles.is_empty() {
                s.roles = vec!["primary".into()];
            }
            let mut seen_primary = false;
            for r in s.roles.iter_mut() {
                if r == "primary" {
                    if seen_primary {
                        *r = "replica".into();
                    }
                    seen_primary = true;
                }
            }
        }
        if let Some(d) = p.default_shard.clone() {
            let ok = match d.strip_prefix("shard_") {
                Some(k) => k.parse::<usize>().map(|k| k < n).unwrap_or(false),
                None => d == "random" || d == "random_healthy",
            };
            if !ok {
                p.default_shard = Some(format!("shard_{}", n - 1));
            }
        }
        if let Some(r) = &p.default_role {
            if !["any", "primary", "replica"].contains(&r.as_str()) {
                p.default_role = Some("any".into());
            }
        }
        // (an auth_query without its credentials is one of the must-reject classes)
        if matches!(p.auth_query_partial, 2 | 3 | 6 | 7) {
            p.auth_query_partial -= 1;
            if p.auth_query_partial % 4 == 2 {
                p.auth_query_partial -= 1;
            }
        }
        for u in p.users.iter_mut() {
            u.password = true;
            if let Some(m) = u.min_pool_size {
                if m > u.pool_size {
                    u.min_pool_size = Some(u.pool_size);
                }
            }
        }
        if p.splitting || p.plugins {
            p.parser = true;
        }
        if p.sharding_key_regex.as_deref() == Some("(unclosed") {
            p.sharding_key_regex = None;
        }
        if matches!(p.automatic_sharding_key.as_deref(), Some("id") | Some("a.b.c")) {
            p.automatic_sharding_key = Some("data.id".into());
        }
    }
    c
}

pub fn case_strategy() -> BoxedStrategy<Case> {
    prop::collection::vec(pool_strategy(), 1..3).prop_map(|pools| Case { pools }).boxed()
}

/// Verdict of the model (Appendix A.7): Some(reason) = must be rejected.
pub fn must_reject(c: &Case) -> Option<String> {
    for (pi, p) in c.pools.iter().enumerate() {
        let n = p.shards.len();
        let mut vals = BTreeSet::new();
        for s in &p.shards {
            // decimal strings by value; "+1" and friends are not shard numbers
            if s.id.is_empty() || !s.id.bytes().all(|b| b.is_ascii_digit()) {
                return Some(format!("pool{}: shard id {:?} is not a number", pi, s.id));
            }
            let v: u64 = match s.id.parse() {
                Ok(v) => v,
                Err(_) => return Some(format!("pool{}: shard id {:?} out of range", pi, s.id)),
            };
            if !vals.insert(v) {
                return Some(format!("pool{}: two shard ids with the value {}", pi, v));
            }
        }
        if vals.iter().cloned().collect::<Vec<u64>>() != (0..n as u64).collect::<Vec<u64>>() {
            return Some(format!("pool{}: shard ids {:?} are not 0..{}", pi, vals, n));
        }
        for s in &p.shards {
            if s.roles.is_empty() {
                return Some(format!("pool{}: shard {} has no servers", pi, s.id));
            }
            if s.roles.iter().filter(|r| *r == "primary").count() > 1 {
                return Some(format!("pool{}: shard {} has two primaries", pi, s.id));
            }
            if s.dup_first {
                return Some(format!("pool{}: shard {} lists the same server twice", pi, s.id));
            }
        }
        if let Some(d) = &p.default_shard {
            match d.strip_prefix("shard_") {
                Some(nm) => match nm.parse::<usize>() {
                    Ok(k) if k < n => {}
                    _ => return Some(format!("pool{}: default_shard {:?} with {} shards", pi, d, n)),
                },
                None => {
                    if d != "random" && d != "random_healthy" {
                        return Some(format!("pool{}: default_shard {:?}", pi, d));
                    }
                }
            }
        }
        if let Some(r) = &p.default_role {
            if !["any", "primary", "replica"].contains(&r.as_str()) {
                return Some(format!("pool{}: default_role {:?}", pi, r));
            }
        }
        // effective auth_query settings of the pool: its own, else those of [general]
        let (pq, pu, pp) = aq_parts_pool(p);
        let (gq, gu, gp) = aq_parts_general(c);
        let (q, u, pw) = (pq || gq, pu || gu, pp || gp);
        if !(q && u && pw) && p.users.iter().any(|u| !u.password) {
            return Some(format!("pool{}: a user without password and no auth_query", pi));
        }
        if q && !(u && pw) {
            return Some(format!("pool{}: auth_query without its user and password", pi));
        }
    }
    None
}

pub struct Layout {
    pub config: PgcatConfig,
    /// (pool index, shard spec index, server index, role) for every mock, in mock order
    pub servers: Vec<(usize, usize, usize, String)>,
}

pub fn specs_for(c: &Case) -> Vec<BackendSpec> {
    let mut v = vec![];
    for (pi, p) in c.pools.iter().enumerate() {
        for (si, s) in p.shards.iter().enumerate() {
            for (k, r) in s.roles.iter().enumerate() {
                v.push(BackendSpec::trust(if r == "primary" { "127.0.0.1" } else { "127.0.0.2" }, &format!("p{}s{}k{}{}", pi, si, k, &r[..1])));
            }
        }
    }
    v
}

/// Build the TOML for a case given (ip, port) per mock in `specs_for` order (or placeholders).
/// (auth_query, auth_query_user, auth_query_password) written in the pool's own section
fn aq_parts_pool(p: &PoolSpec) -> (bool, bool, bool) {
    if p.auth_query {
        return (true, true, true);
    }
    match p.auth_query_partial {
        1 => (false, true, true),
        2 => (true, false, false),
        3 => (true, true, false),
        _ => (false, false, false),
    }
}

/// ... and in [general] (decided by the first pool's spec)
fn aq_parts_general(c: &Case) -> (bool, bool, bool) {
    match c.pools.first().map(|p| if p.auth_query { 0 } else { p.auth_query_partial }).unwrap_or(0) {
        4 => (true, true, true),
        5 => (false, true, true),
        6 => (true, false, false),
        7 => (true, true, false),
        _ => (false, false, false),
    }
}

pub fn build_config(c: &Case, addr: &[(String, u16)]) -> PgcatConfig {
    let mut cfg = PgcatConfig::new();
    cfg.set_general("connect_timeout", "1500");
    let mut mi = 0;
    for (pi, p) in c.pools.iter().enumerate() {
        let mut settings: Vec<(String, String)> = vec![("pool_mode".into(), "\"transaction\"".into())];
        if let Some(d) = &p.default_shard {
            settings.push(("default_shard".into(), crate::pgc::toml_str(d)));
        }
        if let Some(r) = &p.default_role {
            settings.push(("default_role".into(), crate::pgc::toml_str(r)));
        }
        if p.parser {
            settings.push(("query_parser_enabled".into(), "true".into()));
        }
        if p.splitting {
            settings.push(("query_parser_read_write_splitting".into(), "true".into()));
        }
        settings.push(("primary_reads_enabled".into(), "true".into()));
        if let Some(r) = &p.sharding_key_regex {
            settings.push(("sharding_key_regex".into(), format!("'{}'", r)));
        }
        if let Some(k) = &p.automatic_sharding_key {
            settings.push(("automatic_sharding_key".into(), crate::pgc::toml_str(k)));
        }
        let (aq_q, aq_u, aq_p) = aq_parts_pool(p);
        if aq_q {
            settings.push(("auth_query".into(), "\"SELECT usename, passwd FROM pg_shadow WHERE usename='$1'\"".into()));
        }
        if aq_u {
            settings.push(("auth_query_user".into(), "\"aq_user\"".into()));
        }
        if aq_p {
            settings.push(("auth_query_password".into(), "\"aq_pw\"".into()));
        }
        if pi == 0 {
            let (gq, gu, gp) = aq_parts_general(c);
            if gq {
                cfg.set_general("auth_query", "\"SELECT usename, passwd FROM pg_shadow WHERE usename='$1'\"");
            }
            if gu {
                cfg.set_general("auth_query_user", "\"aq_user\"");
            }
            if gp {
                cfg.set_general("auth_query_password", "\"aq_pw\"");
            }
        }
        let users = p
            .users
            .iter()
            .enumerate()
            .map(|(i, u)| UserDef {
                key: i.to_string(),
                username: u.name.clone(),
                password: if u.password { Some("pw".into()) } else { None },
                pool_size: u.pool_size as u32,
                extra: u.min_pool_size.map(|m| vec![("min_pool_size".to_string(), m.to_string())]).unwrap_or_default(),
            })
            .collect();
        let mut shards = vec![];
        for s in &p.shards {
            let mut servers = vec![];
            for r in &s.roles {
                let (ip, port) = addr.get(mi).cloned().unwrap_or(("127.0.0.1".into(), 1));
                mi += 1;
                servers.push(ServerDef { host: ip, port, role: r.clone() });
            }
            if s.dup_first && !servers.is_empty() {
                servers.push(servers[0].clone());
            }
            shards.push(ShardDef { id: s.id.clone(), database: format!("pool{}_shard{}", pi, s.id.replace(|c: char| !c.is_ascii_alphanumeric(), "_")), servers, mirrors: vec![] });
        }
        let raw_tail = if p.plugins { format!("[pools.pool{}.plugins]\n\n[pools.pool{}.plugins.query_logger]\nenabled = false\n", pi, pi) } else { String::new() };
        cfg.pools.push(PoolDef { name: format!("pool{}", pi), settings, users, shards, raw_tail });
    }
    cfg
}

fn case_labels(c: &Case, o: &mut Outcome) {
    let contiguous = c.pools.iter().all(|p| p.shards.iter().enumerate().all(|(i, s)| s.id == i.to_string()));
    if !contiguous {
        o.label("shard_ids_not_0_to_n");
    }
    if c.pools.len() > 1 || c.pools.iter().any(|p| p.users.len() > 1) {
        o.label("several_pools_or_users");
    }
    if c.pools.iter().any(|p| p.default_shard.is_some()) {
        o.label("explicit_default_shard");
    }
    if c.pools.iter().any(|p| p.shards.len() > 10) {
        o.label("more_than_10_shards");
    }
    o.nontrivial = !contiguous || c.pools.len() > 1 || c.pools.iter().any(|p| p.users.len() > 1 || p.default_shard.as_deref().map(|d| d != "shard_0").unwrap_or(false));
}

// ------------------------------------------------------------------------------ lib part

#[cfg(feature = "lib")]
pub struct LibPart;

#[cfg(feature = "lib")]
impl Part for LibPart {
    type Case = Case;
    fn prop(&self) -> &'static str {
        "C15"
    }
    fn name(&self) -> &'static str {
        "lib"
    }
    fn wire(&self) -> bool {
        false
    }
    fn rule(&self) -> String {
        "configuration grammar -> TOML: 1..2 pools, 1..2 users (with/without password, min_pool_size), shard id sets {0..n-1 for n<=4 and n=11..12, not starting at 0, gaps, leading zeros, duplicate values, '+1', negative, non-numeric}, server lists {primary, primary+replica, replicas only, empty, two primaries, duplicated server}, default_shard {absent, shard_N in/out of range, random, random_healthy, junk}, default_role {valid, junk, wrong case}, parser/splitting/plugins flags, regexes valid/invalid, automatic_sharding_key forms, auth_query complete or partial (user + password only, query only, query + user) at pool or [general] level; oracle: the verdict of Config deserialisation + validate() must be 'reject' for every configuration in the model's must-reject classes. Non-trivial = shard ids not exactly 0..n-1, several pools/users, or a non-default default_shard".into()
    }
    fn cases(&self, tier: Tier) -> u64 {
        tier.pick(80_000, 1_200_000)
    }
    fn strategy(&self, _tier: Tier) -> BoxedStrategy<Case> {
        case_strategy()
    }
    fn run(&self, c: &Case, _ctx: &mut WorkerCtx) -> Outcome {
        let mut o = Outcome::pass();
        case_labels(c, &mut o);
        let toml_text = build_config(c, &[]).to_toml(6432);
        let verdict = std::panic::catch_unwind(|| {
            let mut cfg: pgcat::config::Config = match toml::from_str(&toml_text) {
                Ok(c) => c,
                Err(e) => return Err(format!("toml: {}", e)),
            };
            cfg.fill_up_auth_query_config();
            cfg.validate().map_err(|e| format!("{:?}", e))
        });
        match verdict {
            Err(_) => o.fail("config-validation-panics", format!("validation panicked on\n{}", toml_text)),
            Ok(Err(_)) => o.label("rejected"),
            Ok(Ok(())) => {
                o.label("accepted");
                if let Some(why) = must_reject(c) {
                    let class = why.split(": ").nth(1).unwrap_or("").split(|c: char| c == '"' || c.is_ascii_digit() || c == '{').next().unwrap_or("").trim().replace(' ', "-");
                    o.fail(&format!("unservable-config-accepted:{}", class), format!("accepted although {}:\n{}", why, toml_text));
                }
            }
        }
        o
    }
}

// ------------------------------------------------------------------------------ wire part

pub struct WirePart;

impl Part for WirePart {
    type Case = Case;
    fn prop(&self) -> &'static str {
        "C15"
    }
    fn name(&self) -> &'static str {
        "wire"
    }
    fn wire(&self) -> bool {
        true
    }
    fn rule(&self) -> String {
        "the same configuration grammar against the real binary with one mock backend per configured server: a configuration the binary refuses at start-up must be refused cleanly (exit status, no panic); for every configuration it accepts, each user logs in and for every shard number 0..n-1 and every role present runs a tagged statement that must be logged by a server of exactly that shard/role, the default_shard mode is exercised without SET SHARD, SHOW DATABASES/POOLS/SERVERS/STATS/CONFIG answer without error, and pgcat's stderr contains no panic. Non-trivial as in the lib part".into()
    }
    fn cases(&self, tier: Tier) -> u64 {
        tier.pick(640, 10_000)
    }
    fn strategy(&self, _tier: Tier) -> BoxedStrategy<Case> {
        prop_oneof![2 => case_strategy(), 3 => case_strategy().prop_map(heal)].boxed()
    }
    fn run(&self, c: &Case, ctx: &mut WorkerCtx) -> Outcome {
        wire::run_async(run_wire(c, ctx))
    }
}

async fn run_wire(c: &Case, ctx: &mut WorkerCtx) -> Outcome {
    let mut o = Outcome::pass();
    case_labels(c, &mut o);
    let specs = specs_for(c);
    let (shared, mocks) = match wire::start_mocks(&specs).await {
        Ok(x) => x,
        Err(e) => {
            o.inconclusive = Some(e);
            return o;
        }
    };
    let addr: Vec<(String, u16)> = mocks.iter().map(|m| (m.ip.clone(), m.port)).collect();
    let config = build_config(c, &addr);
    let port = ctx.ports.next();
    let toml_text = config.to_toml(port);
    let dir = ctx.dir.join(format!("case{}", ctx.case_no % 4));
    let pg = crate::pgc::Pgcat::start(&dir, port, &toml_text, &[]).await;
    let model_reject = must_reject(c);
    let pg = match pg {
        Err(e) => {
            // refused at start-up
            o.label("rejected_at_startup");
            if e.contains("panicked") {
                o.fail("startup-panic", format!("pgcat panicked at start-up instead of rejecting the configuration: {}\n{}", e, toml_text));
            } else if !e.contains("exited during startup") {
                o.inconclusive = Some(e);
            }
            shared.stop();
            return o;
        }
        Ok(p) => p,
    };
    o.label("accepted");
    let env = Env { shared, mocks, pg, config };
    if let Some(why) = model_reject {
        let class = why.split(": ").nth(1).unwrap_or("").split(|c: char| c == '"' || c.is_ascii_digit() || c == '{').next().unwrap_or("").trim().replace(' ', "-");
        o.fail(&format!("unservable-config-accepted:{}", class), format!("pgcat started although {}:\n{}", why, toml_text));
        env.finish().await;
        return o;
    }
    // mock index -> (pool, shard value, role)
    let mut where_is: HashMap<usize, (usize, usize, String)> = HashMap::new();
    {
        let mut mi = 0;
        for (pi, p) in c.pools.iter().enumerate() {
            for s in &p.shards {
                let v: usize = s.id.parse().unwrap_or(usize::MAX);
                for r in &s.roles {
                    where_is.insert(mi, (pi, v, r.clone()));
                    mi += 1;
                }
            }
        }
    }
    let find = |env: &Env, t: crate::sqllex::Tag| -> Vec<usize> {
        env.log().iter().filter_map(|ev| match &ev.kind {
            EvKind::Rx { tags, .. } if tags.contains(&t) => Some(ev.server),
            _ => None,
        }).collect()
    };
    let mut cid = 0u32;
    'pools: for (pi, p) in c.pools.iter().enumerate() {
        let n = p.shards.len();
        for u in &p.users {
            if !u.password {
                // auth_query users need the mock to answer the lookup; not part of this check
                continue;
            }
            cid += 1;
            let mut cli = match env.client(cid, &u.name, &format!("pool{}", pi), "pw", &[]).await {
                Ok(c) => c,
                Err(e) => {
                    let mut env = env;
                    let alive = env.pg.alive();
                    let ss = std::process::Command::new("ss").arg("-tanp").output().map(|o| String::from_utf8_lossy(&o.stdout).lines().filter(|l| l.contains(&format!(":{} ", port))).collect::<Vec<_>>().join(" | ")).unwrap_or_default();
                    o.fail("configured-user-cannot-log-in", format!("pool{} user {}: {} (pgcat pid={} alive={}, listeners: {}, stderr: {})\n{}", pi, u.name, e, env.pg.pid(), alive, ss, env.pg.stderr_tail(60000).lines().filter(|l| !l.contains("AddressStats")).collect::<Vec<_>>().join("\n"), toml_text));
                    env.finish().await;
                    return o;
                }
            };
            for k in 0..n {
                let roles: BTreeSet<String> = p.shards.iter().filter(|s| s.id.parse::<usize>().ok() == Some(k)).flat_map(|s| s.roles.iter().cloned()).collect();
                for role in roles.iter().map(|s| s.as_str()).chain(std::iter::once("any")) {
                    o.sub_evaluations += 1;
                    let (_m, e) = cli.simple(&format!("SET SHARD TO '{}'", k), wire::T_REPLY).await;
                    if !matches!(e, ReadEnd::Ready(_)) {
                        o.fail("abnormal-disconnect", format!("SET SHARD TO '{}' on pool{} ended {:?}; stderr {}\n{}", k, pi, e, env.pg.stderr_tail(600), toml_text));
                        break 'pools;
                    }
                    let (_m, e) = cli.simple(&format!("SET SERVER ROLE TO '{}'", role), wire::T_REPLY).await;
                    if !matches!(e, ReadEnd::Ready(_)) {
                        o.fail("abnormal-disconnect", format!("SET SERVER ROLE on pool{} ended {:?}\n{}", pi, e, toml_text));
                        break 'pools;
                    }
                    let t = cli.tag();
                    let (m, e) = cli.simple(&format!("{} SELECT v FROM t", t.render()), wire::T_REPLY).await;
                    if !matches!(e, ReadEnd::Ready(_)) {
                        o.fail("abnormal-disconnect", format!("query on pool{} shard {} role {} ended {:?}; stderr {}\n{}", pi, k, role, e, env.pg.stderr_tail(600), toml_text));
                        break 'pools;
                    }
                    let servers = find(&env, t);
                    if servers.is_empty() {
                        o.fail("shard-not-served", format!("pool{} user {} shard {} role {}: statement reached no server (errors {:?})\n{}", pi, u.name, k, role, crate::cli::errors(&m), toml_text));
                        break 'pools;
                    }
                    for sv in servers {
                        let (wp, wv, wr) = where_is.get(&sv).cloned().unwrap_or((usize::MAX, usize::MAX, String::new()));
                        if wp != pi || wv != k || (role != "any" && wr != role) {
                            o.fail(
                                "misrouted",
                                format!("pool{} user {} selected shard {} role {} but the statement ran on backend {} (pool{} shard {} {})\n{}", pi, u.name, k, role, env.mocks[sv].label, wp, wv, wr, toml_text),
                            );
                            break 'pools;
                        }
                    }
                }
            }
            // default_shard mode: a fresh client that never selects a shard
            cid += 1;
            if let Ok(mut c2) = env.client(cid, &u.name, &format!("pool{}", pi), "pw", &[]).await {
                o.sub_evaluations += 1;
                // the default role may name a role the default shard does not have (a refusal, not a
                // misrouting): ask for any role so that only the default *shard* is exercised
                let _ = c2.simple("SET SERVER ROLE TO 'any'", wire::T_REPLY).await;
                let t = c2.tag();
                let (m, e) = c2.simple(&format!("{} SELECT v FROM t", t.render()), wire::T_REPLY).await;
                if !matches!(e, ReadEnd::Ready(_)) {
                    o.fail("abnormal-disconnect", format!("default-shard query on pool{} ended {:?}; stderr {}\n{}", pi, e, env.pg.stderr_tail(600), toml_text));
                    break 'pools;
                }
                let servers = find(&env, t);
                if servers.is_empty() {
                    o.fail("default-shard-not-served", format!("pool{}: query without SET SHARD reached no server (errors {:?})\n{}", pi, crate::cli::errors(&m), toml_text));
                    break 'pools;
                }
                let want: Option<usize> = match p.default_shard.as_deref() {
                    None => Some(0),
                    Some(d) => d.strip_prefix("shard_").and_then(|x| x.parse().ok()),
                };
                for sv in servers {
                    let (wp, wv, _) = where_is.get(&sv).cloned().unwrap_or((usize::MAX, usize::MAX, String::new()));
                    if wp != pi || want.map(|w| w != wv && n > 1).unwrap_or(false) {
                        o.fail("default-shard-misrouted", format!("pool{} default_shard {:?}: statement ran on pool{} shard {}\n{}", pi, p.default_shard, wp, wv, toml_text));
                        break 'pools;
                    }
                }
            }
        }
    }
    if o.violation.is_none() {
        match env.admin().await {
            Ok(mut a) => {
                for q in ["SHOW DATABASES", "SHOW POOLS", "SHOW SERVERS", "SHOW STATS", "SHOW CONFIG", "SHOW BANS", "SHOW CLIENTS"] {
                    if let Err(e) = wire::admin_query(&mut a, q).await {
                        o.fail("admin-command-fails", format!("{}: {}\n{}", q, e, toml_text));
                        break;
                    }
                }
            }
            Err(e) => o.fail("admin-cannot-log-in", e),
        }
    }
    if o.violation.is_none() {
        let panics = env.panics();
        if !panics.is_empty() {
            o.fail("panic-on-accepted-config", format!("{:?}\n{}", panics, toml_text));
        }
    }
    let mut env = env;
    if o.violation.is_none() && !env.pg.alive() {
        o.fail("pgcat-died", format!("pgcat exited while serving an accepted configuration; stderr {}", env.pg.stderr_tail(800)));
    }
    env.finish().await;
    o
}
