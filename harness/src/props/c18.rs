//! C18 — admin statistics count every client, server connection and transaction once.

use crate::cli::{Cli, ReadEnd};
use crate::engine::{Outcome, Part, PartReport, Tier, WorkerCtx};
use crate::mock::{EvKind, Event, Fault};
use crate::pgc::{PgcatConfig, PoolDef, ServerDef, ShardDef, UserDef};
use crate::prog::{self, Ext, Req, Sk, St};
use crate::proto;
use crate::wire::{self, BackendSpec, Env};
use proptest::prelude::*;
use serde::{Deserialize, Serialize};
use std::collections::{BTreeMap, HashMap, HashSet};
use std::time::{Duration, Instant};

pub fn check(tier: Tier, seed: u64, replay: (Option<&str>, Option<&str>)) -> Vec<PartReport> {
    crate::run_parts!(tier, seed, replay, [WirePart, TickPart])
}

#[derive(Clone, Debug, Serialize, Deserialize)]
pub enum Step {
    Connect,
    FailedLogin,
    /// autocommit statement
    Auto(u8),
    /// BEGIN, n statements, COMMIT|ROLLBACK
    Block(u8, u8, bool),
    /// Parse/Bind/Execute/Sync
    Batch(u8),
    /// autocommit COPY FROM STDIN with n rows (done or failed)
    CopyIn(u8, u8, bool),
    /// autocommit COPY TO STDOUT
    CopyOut(u8),
    /// autocommit statement answered with an error
    ErrAuto(u8),
    /// BEGIN and stay inside the transaction
    BeginHold(u8),
    EndHold(u8),
    Terminate(u8),
    Drop(u8),
    /// malformed Close message (the client is disconnected by the pooler)
    ProtoErr(u8),
    /// query with an out-of-range shard_id comment (refused, the client stays connected)
    BadShard(u8),
    /// the backend refuses new sessions while a new server connection is needed
    BackendRefuse(u8),
    Sample,
}

#[derive(Clone, Debug, Serialize, Deserialize)]
pub struct Case {
    pub pool_size: u8,
    pub workers: u8,
    pub steps: Vec<Step>,
    /// the history straddles the pooler's 15-second statistics roll-over: a sample is taken before it, the second half of the
    /// steps runs after it
    #[serde(default)]
    pub across_tick: bool,
}

pub struct WirePart;

impl Part for WirePart {
    type Case = Case;
    fn prop(&self) -> &'static str {
        "C18"
    }
    fn name(&self) -> &'static str {
        "wire"
    }
    fn wire(&self) -> bool {
        true
    }
    fn rule(&self) -> String {
        "histories of 5..22 steps on a two-shard pool (pool_size 2..3): connect, failed login, autocommit statement, BEGIN..COMMIT/ROLLBACK blocks, extended batch, failing statement, transaction left open / closed later, Terminate, abrupt drop (idle or inside a transaction), malformed message, out-of-range shard_id comment, backend refusing new sessions while a new server connection is needed; a sample is taken after every few steps and at the end (part 'tick': the same histories straddling the pooler's 15-second statistics roll-over, errors and traffic counted before it, a sample on either side). Oracle at each quiescent sample (polled up to 2 s): SHOW CLIENTS lists exactly the harness' connected clients once each with idle/active state matching open transactions, SHOW POOLS cl_idle+cl_active+cl_waiting equals their number with no client waiting, SHOW SERVERS has one row per live mock-backend session and as many active ones as open transactions and none in login, SHOW STATS total_query_count / total_xact_count equal the Query/Sync requests the backends executed / those that left the backend idle, and no total decreases between samples; after everyone has left: zero clients, no active server. Non-trivial = at least one abrupt or erroneous exit and one refused checkout or failed login in the history".into()
    }
    fn cases(&self, tier: Tier) -> u64 {
        tier.pick(1_000, 16_000)
    }
    fn strategy(&self, _tier: Tier) -> BoxedStrategy<Case> {
        let c = 0u8..6;
        let step = prop_oneof![
            3 => Just(Step::Connect),
            1 => Just(Step::FailedLogin),
            4 => c.clone().prop_map(Step::Auto),
            3 => (c.clone(), 1u8..4, any::<bool>()).prop_map(|(a, n, k)| Step::Block(a, n, k)),
            2 => c.clone().prop_map(Step::Batch),
            1 => (c.clone(), 0u8..3, any::<bool>()).prop_map(|(a, n, f)| Step::CopyIn(a, n, f)),
            1 => c.clone().prop_map(Step::CopyOut),
            2 => c.clone().prop_map(Step::ErrAuto),
            2 => c.clone().prop_map(Step::BeginHold),
            2 => c.clone().prop_map(Step::EndHold),
            1 => c.clone().prop_map(Step::Terminate),
            2 => c.clone().prop_map(Step::Drop),
            2 => c.clone().prop_map(Step::ProtoErr),
            2 => c.clone().prop_map(Step::BadShard),
            1 => c.clone().prop_map(Step::BackendRefuse),
            3 => Just(Step::Sample),
        ];
        (2u8..=3, prop_oneof![Just(1u8), Just(2u8), Just(4u8)], prop::collection::vec(step, 5..23), Just(false))
            .prop_map(|(pool_size, workers, mut steps, across_tick)| {
                steps.insert(0, Step::Connect);
                steps.insert(1, Step::Connect);
                Case { pool_size, workers, steps, across_tick }
            })
            .boxed()
    }
    fn run(&self, c: &Case, ctx: &mut WorkerCtx) -> Outcome {
        wire::run_async(run_case(c, ctx))
    }
}

/// The same histories, but each one straddles the 15-second statistics roll-over (one case per worker in the quick tier).
pub struct TickPart;

impl Part for TickPart {
    type Case = Case;
    fn prop(&self) -> &'static str {
        "C18"
    }
    fn name(&self) -> &'static str {
        "tick"
    }
    fn wire(&self) -> bool {
        true
    }
    fn rule(&self) -> String {
        "histories as in part 'wire' that run for 16 s: errors and traffic are counted and sampled before the pooler's 15-second statistics roll-over, the second half of the steps and the final samples come after it; oracle as in part 'wire', in particular no total (queries, transactions, bytes, errors, times) decreases across the roll-over. Non-trivial = always (every case crosses the roll-over with non-zero totals)".into()
    }
    fn cases(&self, tier: Tier) -> u64 {
        tier.pick(16, 160)
    }
    fn nontrivial_floor(&self) -> f64 {
        0.0
    }
    fn max_shrink(&self) -> u32 {
        // every re-execution takes 16 s
        6
    }
    fn strategy(&self, tier: Tier) -> BoxedStrategy<Case> {
        WirePart
            .strategy(tier)
            .prop_map(|mut c| {
                c.across_tick = true;
                // make sure errors and traffic were counted before the roll-over
                c.steps.insert(2, Step::ErrAuto(0));
                c.steps.insert(3, Step::BadShard(1));
                c.steps.insert(4, Step::Auto(0));
                c
            })
            .boxed()
    }
    fn run(&self, c: &Case, ctx: &mut WorkerCtx) -> Outcome {
        let mut o = wire::run_async(run_case(c, ctx));
        o.nontrivial = o.labels.iter().any(|l| l == "across_stats_rollover");
        o
    }
}

fn config(mocks: &[crate::mock::MockServer], c: &Case) -> PgcatConfig {
    let mut cfg = PgcatConfig::new();
    cfg.set_general("worker_threads", &c.workers.to_string());
    cfg.set_general("connect_timeout", "300");
    let shards = (0..2)
        .map(|s| ShardDef { id: s.to_string(), database: format!("shard{}", s), servers: vec![ServerDef { host: mocks[s].ip.clone(), port: mocks[s].port, role: "primary".into() }], mirrors: vec![] })
        .collect();
    cfg.pools.push(PoolDef {
        name: "db".into(),
        settings: vec![("pool_mode".into(), "\"transaction\"".into()), ("shard_id_regex".into(), "'/\\* shard_id: (\\d+) \\*/'".into())],
        users: vec![UserDef { key: "0".into(), username: "u".into(), password: Some("pw".into()), pool_size: c.pool_size as u32, extra: vec![] }],
        shards,
        raw_tail: String::new(),
    });
    cfg
}

struct Cl {
    cli: Cli,
    app: String,
    in_txn: bool,
}

fn num(r: &HashMap<String, String>, k: &str) -> i64 {
    r.get(k).and_then(|v| v.parse().ok()).unwrap_or(-1)
}

/// (queries, transactions) the backends executed on behalf of clients, from their own logs.
fn backend_counts(log: &[Event]) -> (i64, i64) {
    let mut reqs: HashMap<u64, ()> = HashMap::new();
    let mut q = 0;
    let mut x = 0;
    for e in log {
        match &e.kind {
            EvKind::Rx { code, own, .. } if !*own && matches!(*code, b'Q' | b'S') => {
                q += 1;
                reqs.insert(e.seq, ());
            }
            // CopyDone / CopyFail finish the COPY request: they can end a transaction, they are not queries
            EvKind::Rx { code, own, .. } if !*own && matches!(*code, b'c' | b'f') => {
                reqs.insert(e.seq, ());
            }
            EvKind::Tx { bytes, for_seq } if reqs.contains_key(for_seq) => {
                if let Ok((msgs, _)) = proto::split_all(bytes) {
                    if msgs.last().map(|m| m.code == b'Z' && m.body.first() == Some(&b'I')).unwrap_or(false) {
                        x += 1;
                    }
                }
            }
            _ => {}
        }
    }
    (q, x)
}

async fn run_case(c: &Case, ctx: &mut WorkerCtx) -> Outcome {
    let mut o = Outcome::pass();
    let specs = vec![BackendSpec::trust("127.0.0.1", "s0"), BackendSpec::trust("127.0.0.1", "s1")];
    let env = match Env::start(ctx, &specs, |m| config(m, c)).await {
        Ok(e) => e,
        Err(e) => {
            o.inconclusive = Some(e);
            return o;
        }
    };
    let mut admin = match env.admin().await {
        Ok(a) => a,
        Err(e) => {
            o.inconclusive = Some(e);
            env.finish().await;
            return o;
        }
    };
    let t0 = Instant::now();
    let mut cls: Vec<Cl> = vec![];
    let mut next_id = 0u32;
    let mut prev_totals: BTreeMap<String, i64> = BTreeMap::new();
    let mut abrupt = false;
    let mut refused = false;
    let mut since_sample = 0;

    macro_rules! bail {
        ($sig:expr, $d:expr) => {{
            o.fail($sig, format!("{}; steps {:?}; pgcat stderr: {}", $d, c.steps, env.pg.stderr_tail(300)));
            env.finish().await;
            return o;
        }};
    }

    let mut steps: Vec<Step> = c.steps.clone();
    steps.push(Step::Sample);
    let n_steps = steps.len();
    let mut tick_done = false;
    for (si, st) in steps.iter().enumerate() {
        o.sub_evaluations += 1;
        if c.across_tick && !tick_done && si >= n_steps / 2 && since_sample == 0 {
            // the collector rolls the per-period counters over 15 s after start-up (STAT_PERIOD); the sample just taken is the
            // "before" picture, everything from here on happens after the roll-over
            let up = t0.elapsed();
            let want = Duration::from_millis(15_700);
            if up < want {
                tokio::time::sleep(want - up).await;
            }
            tick_done = true;
            o.label("across_stats_rollover");
        }
        let live: Vec<usize> = (0..cls.len()).filter(|i| cls[*i].cli.is_open()).collect();
        let pick = |k: u8| -> Option<usize> { if live.is_empty() { None } else { Some(live[k as usize % live.len()]) } };
        let mut force_sample = false;
        match st {
            Step::Connect => {
                next_id += 1;
                let app = format!("c{}", next_id);
                match env.client(next_id, "u", "db", "pw", &[("application_name", &app)]).await {
                    Ok(cli) => cls.push(Cl { cli, app, in_txn: false }),
                    Err(e) => bail!("valid-login-refused", e),
                }
            }
            Step::FailedLogin => {
                refused = true;
                if let Ok(mut cl) = Cli::connect(500 + si as u32, &env.addr(), false).await {
                    let _ = cl.startup("u", "db", &[("application_name", "intruder")], crate::cli::Password::Md5("u", "wrong")).await;
                    cl.close();
                }
            }
            Step::Auto(k) | Step::ErrAuto(k) | Step::Batch(k) | Step::CopyIn(k, _, _) | Step::CopyOut(k) | Step::Block(k, _, _) | Step::BeginHold(k) | Step::EndHold(k) | Step::BadShard(k) => {
                let i = match pick(*k) {
                    Some(i) => i,
                    None => continue,
                };
                // server capacity: clients inside transactions pin connections of shard 0
                let pinned = cls.iter().filter(|x| x.in_txn && x.cli.is_open()).count();
                let needs_new = !cls[i].in_txn;
                if needs_new && pinned >= c.pool_size as usize && !matches!(st, Step::BadShard(_)) {
                    continue;
                }
                let reqs: Vec<Req> = match st {
                    Step::Auto(_) => vec![Req::Simple(vec![St::new(Sk::Select)])],
                    Step::ErrAuto(_) => {
                        let mut s = St::new(Sk::Select);
                        s.err_at = Some(0);
                        vec![Req::Simple(vec![s])]
                    }
                    Step::Batch(_) => vec![Req::Batch(vec![Ext::Parse(String::new(), St::new(Sk::Select), vec![]), Ext::Bind(String::new(), String::new()), Ext::Execute(String::new(), 0)])],
                    Step::CopyIn(_, n, fail) => vec![Req::CopyIn { chunks: *n, chunk_len: 12, fail: *fail }],
                    Step::CopyOut(_) => vec![Req::CopyOut { rows: 3 }],
                    Step::Block(_, n, commit) => {
                        if cls[i].in_txn {
                            continue;
                        }
                        let mut v = vec![Req::Simple(vec![St::new(Sk::Begin)])];
                        for _ in 0..*n {
                            v.push(Req::Simple(vec![St::new(Sk::Insert)]));
                        }
                        v.push(Req::Simple(vec![St::new(if *commit { Sk::Commit } else { Sk::Rollback })]));
                        v
                    }
                    Step::BeginHold(_) => {
                        if cls[i].in_txn {
                            continue;
                        }
                        cls[i].in_txn = true;
                        vec![Req::Simple(vec![St::new(Sk::Begin)])]
                    }
                    Step::EndHold(_) => {
                        if !cls[i].in_txn {
                            continue;
                        }
                        cls[i].in_txn = false;
                        vec![Req::Simple(vec![St::new(Sk::Commit)])]
                    }
                    Step::BadShard(_) => {
                        if cls[i].in_txn {
                            continue;
                        }
                        refused = true;
                        force_sample = true;
                        vec![Req::Simple(vec![St::new(Sk::Raw("/* shard_id: 7 */ SELECT 1".into()))])]
                    }
                    _ => vec![],
                };
                for rq in &reqs {
                    let x = prog::run_req(&mut cls[i].cli, rq, t0).await;
                    if !matches!(x.end, ReadEnd::Ready(_)) {
                        bail!("request-not-answered", format!("step {} ({:?}) of {} ended {:?}", si, st, cls[i].app, x.end));
                    }
                    let pool_err = x.reply.iter().any(|m| m.code == b'E' && proto::error_code(&m.body) == "58000");
                    if pool_err && !matches!(st, Step::BadShard(_)) {
                        bail!("unexpected-pool-error", format!("step {} ({:?}) of {}: {:?}", si, st, cls[i].app, crate::cli::errors(&x.reply)));
                    }
                }
                if matches!(st, Step::BadShard(_)) {
                    // the comment selected shard 7 for this session; go back to a real shard
                    let (_m, e) = cls[i].cli.simple("SET SHARD TO '0'", wire::T_REPLY).await;
                    if !matches!(e, ReadEnd::Ready(_)) {
                        bail!("request-not-answered", format!("SET SHARD after the refused statement ended {:?}", e));
                    }
                }
            }
            Step::Terminate(k) => {
                if let Some(i) = pick(*k) {
                    cls[i].cli.send(&proto::terminate()).await;
                    cls[i].cli.close();
                    cls[i].in_txn = false;
                }
            }
            Step::Drop(k) => {
                if let Some(i) = pick(*k) {
                    abrupt = true;
                    cls[i].cli.close();
                    cls[i].in_txn = false;
                    o.label("abrupt_drop");
                }
            }
            Step::ProtoErr(k) => {
                if let Some(i) = pick(*k) {
                    abrupt = true;
                    cls[i].cli.send(&proto::frame(b'C', &[])).await;
                    let _ = cls[i].cli.read_until_closed(Duration::from_millis(500)).await;
                    cls[i].cli.close();
                    cls[i].in_txn = false;
                    o.label("protocol_error_exit");
                    force_sample = true;
                }
            }
            Step::BackendRefuse(k) => {
                // Needs a moment where exactly one pooled connection to shard 0 exists: client A pins it with
                // an open transaction, the backend starts refusing new sessions, client B's statement needs a
                // second connection and is refused with a pool error; then the backend recovers.
                if live.len() < 2 || cls.iter().any(|x| x.in_txn && x.cli.is_open()) || env.mocks[0].live_sessions() != 1 {
                    continue;
                }
                let a = live[*k as usize % live.len()];
                let b = live[(*k as usize + 1) % live.len()];
                let x = prog::run_req(&mut cls[a].cli, &Req::Simple(vec![St::new(Sk::Begin)]), t0).await;
                if !matches!(x.end, ReadEnd::Ready(_)) {
                    bail!("request-not-answered", format!("step {}: BEGIN of {} ended {:?}", si, cls[a].app, x.end));
                }
                refused = true;
                env.mocks[0].set_fault(Fault::RefuseAuth);
                let x = prog::run_req(&mut cls[b].cli, &Req::Simple(vec![St::new(Sk::Select)]), t0).await;
                env.mocks[0].set_fault(Fault::Up);
                if !matches!(x.end, ReadEnd::Ready(_)) {
                    bail!("request-not-answered", format!("step {}: statement of {} during the backend refusal ended {:?}", si, cls[b].app, x.end));
                }
                let x = prog::run_req(&mut cls[a].cli, &Req::Simple(vec![St::new(Sk::Commit)]), t0).await;
                if !matches!(x.end, ReadEnd::Ready(_)) {
                    bail!("request-not-answered", format!("step {}: COMMIT of {} ended {:?}", si, cls[a].app, x.end));
                }
                o.label("backend_refused_new_sessions");
                force_sample = true;
            }
            Step::Sample => force_sample = true,
        }
        since_sample += 1;
        if c.across_tick && !tick_done && si + 1 >= n_steps / 2 {
            force_sample = true;
        }
        if !(force_sample || since_sample >= 4 || si + 1 == n_steps) {
            continue;
        }
        since_sample = 0;
        // ---- quiescent sample (poll up to 2 s: the pooler notices dead sockets asynchronously)
        let want_clients: HashSet<String> = cls.iter().filter(|x| x.cli.is_open()).map(|x| x.app.clone()).collect();
        let want_active: HashSet<String> = cls.iter().filter(|x| x.cli.is_open() && x.in_txn).map(|x| x.app.clone()).collect();
        let deadline = Instant::now() + Duration::from_secs(2);
        let mut problem: Option<(String, String)>;
        loop {
            problem = None;
            let clients = match wire::admin_query(&mut admin, "SHOW CLIENTS").await {
                Ok(r) => r,
                Err(e) => bail!("admin-command-fails", e),
            };
            let pools = wire::admin_query(&mut admin, "SHOW POOLS").await.unwrap_or_default();
            let servers = wire::admin_query(&mut admin, "SHOW SERVERS").await.unwrap_or_default();
            let stats = wire::admin_query(&mut admin, "SHOW STATS").await.unwrap_or_default();
            let db_clients: Vec<&HashMap<String, String>> = clients.iter().filter(|r| r.get("database").map(|d| d == "db").unwrap_or(false)).collect();
            let names: Vec<String> = db_clients.iter().map(|r| r.get("application_name").cloned().unwrap_or_default()).collect();
            let name_set: HashSet<String> = names.iter().cloned().collect();
            if names.len() != name_set.len() {
                problem = Some(("client-listed-twice".into(), format!("SHOW CLIENTS lists {:?}", names)));
            } else if name_set != want_clients {
                let ghosts: Vec<&String> = name_set.difference(&want_clients).collect();
                let missing: Vec<&String> = want_clients.difference(&name_set).collect();
                problem = Some((if !ghosts.is_empty() { "ghost-client-row".into() } else { "connected-client-not-listed".into() }, format!("SHOW CLIENTS lists {:?}; connected are {:?} (ghosts {:?}, missing {:?})", names, want_clients, ghosts, missing)));
            } else {
                for r in &db_clients {
                    let app = r.get("application_name").cloned().unwrap_or_default();
                    let state = r.get("state").cloned().unwrap_or_default();
                    let want = if want_active.contains(&app) { "active" } else { "idle" };
                    if state != want {
                        problem = Some((format!("client-state-wrong:{}-shown-as-{}", want, state), format!("client {} is {} but SHOW CLIENTS says {}", app, want, state)));
                    }
                }
            }
            if problem.is_none() {
                if let Some(p) = pools.iter().find(|r| r.get("database").map(|d| d == "db").unwrap_or(false)) {
                    let (idle, active, waiting) = (num(p, "cl_idle"), num(p, "cl_active"), num(p, "cl_waiting"));
                    if idle + active + waiting != want_clients.len() as i64 || waiting != 0 || active != want_active.len() as i64 {
                        problem = Some(("pool-client-counts-wrong".into(), format!("SHOW POOLS cl_idle={} cl_active={} cl_waiting={} with {} connected clients of which {} inside a transaction", idle, active, waiting, want_clients.len(), want_active.len())));
                    }
                    let (sv_active, sv_login) = (num(p, "sv_active"), num(p, "sv_login"));
                    if problem.is_none() && (sv_active != want_active.len() as i64 || sv_login != 0) {
                        problem = Some(("pool-server-counts-wrong".into(), format!("SHOW POOLS sv_active={} sv_login={} with {} open transactions", sv_active, sv_login, want_active.len())));
                    }
                }
            }
            if problem.is_none() {
                let live_sessions: usize = env.mocks.iter().map(|m| m.live_sessions()).sum();
                let active_rows = servers.iter().filter(|r| r.get("state").map(|s| s == "active").unwrap_or(false)).count();
                let login_rows = servers.iter().filter(|r| r.get("state").map(|s| s == "login").unwrap_or(false)).count();
                if servers.len() != live_sessions {
                    problem = Some(("server-rows-differ-from-live-sessions".into(), format!("SHOW SERVERS has {} rows, the backends have {} live sessions (states {:?})", servers.len(), live_sessions, servers.iter().map(|r| r.get("state").cloned().unwrap_or_default()).collect::<Vec<_>>())));
                } else if active_rows != want_active.len() || login_rows != 0 {
                    problem = Some(("server-state-wrong".into(), format!("SHOW SERVERS: {} active, {} login rows with {} open transactions", active_rows, login_rows, want_active.len())));
                }
            }
            if problem.is_none() {
                let (q, x) = backend_counts(&env.log());
                let tq: i64 = stats.iter().map(|r| num(r, "total_query_count")).sum();
                let tx: i64 = stats.iter().map(|r| num(r, "total_xact_count")).sum();
                if tq != q {
                    problem = Some(("query-total-wrong".into(), format!("SHOW STATS total_query_count={} but the backends executed {} client requests", tq, q)));
                } else if tx != x {
                    problem = Some(("transaction-total-wrong".into(), format!("SHOW STATS total_xact_count={} but {} client requests left a backend idle", tx, x)));
                }
                // monotone totals
                let mut totals: BTreeMap<String, i64> = BTreeMap::new();
                for r in &stats {
                    for k in ["total_xact_count", "total_query_count", "total_received", "total_sent", "total_errors", "total_wait_time", "total_xact_time", "total_query_time"] {
                        *totals.entry(format!("{}:{}", r.get("instance").cloned().unwrap_or_default(), k)).or_default() += num(r, k);
                    }
                }
                if problem.is_none() {
                    for (k, v) in &totals {
                        if let Some(p) = prev_totals.get(k) {
                            if v < p {
                                problem = Some(("total-decreased".into(), format!("{} went from {} to {}", k, p, v)));
                            }
                        }
                    }
                }
                if problem.is_none() {
                    prev_totals = totals;
                }
            }
            if problem.is_none() || Instant::now() > deadline {
                break;
            }
            tokio::time::sleep(Duration::from_millis(40)).await;
        }
        if let Some((sig, d)) = problem {
            bail!(&sig, format!("sample after step {} ({:?}): {}", si, st, d));
        }
    }
    // ---- everyone leaves
    for cl in cls.iter_mut() {
        if cl.cli.is_open() {
            cl.cli.send(&proto::terminate()).await;
            cl.cli.close();
        }
    }
    let deadline = Instant::now() + Duration::from_secs(2);
    loop {
        let clients = wire::admin_query(&mut admin, "SHOW CLIENTS").await.unwrap_or_default();
        let servers = wire::admin_query(&mut admin, "SHOW SERVERS").await.unwrap_or_default();
        let left: Vec<String> = clients.iter().filter(|r| r.get("database").map(|d| d == "db").unwrap_or(false)).map(|r| r.get("application_name").cloned().unwrap_or_default()).collect();
        let active = servers.iter().filter(|r| r.get("state").map(|s| s == "active").unwrap_or(false)).count();
        if left.is_empty() && active == 0 {
            break;
        }
        if Instant::now() > deadline {
            bail!(if !left.is_empty() { "ghost-client-row" } else { "server-left-active" }, format!("after every client left: SHOW CLIENTS still lists {:?}, {} servers active", left, active));
        }
        tokio::time::sleep(Duration::from_millis(40)).await;
    }
    o.nontrivial = abrupt && refused;
    env.finish().await;
    o
}
