//! C02 — a server connection is clean whenever it changes hands.

use crate::cli::{Cli, ReadEnd};
use crate::engine::{Outcome, Part, PartReport, Tier, WorkerCtx};
use crate::mock::{EvKind, Event, Snap};
use crate::pgc::{self, PgcatConfig, ServerDef};
use crate::prog::{self, Req, Sk, St};
use crate::proto;
use crate::wire::{self, BackendSpec, Env};
use proptest::prelude::*;
use serde::{Deserialize, Serialize};
use std::time::Duration;

pub fn check(tier: Tier, seed: u64, replay: (Option<&str>, Option<&str>)) -> Vec<PartReport> {
    crate::run_parts!(tier, seed, replay, [WirePart])
}

#[derive(Clone, Debug, Serialize, Deserialize, PartialEq)]
pub enum Pre {
    /// SET <untracked guc> outside a transaction
    SetGuc(u8, String),
    SetRole,
    SqlPrepare,
    /// named protocol-level Parse (meaningful with the statement cache off)
    NamedParse,
    /// client-issued RESET <guc> (resets only that one)
    ResetGuc(u8),
    ResetRole,
    /// DEALLOCATE of a statement that may or may not exist (IF-less; only sent after SqlPrepare of the same name)
    DeallocateOther,
    Select,
}

#[derive(Clone, Debug, Serialize, Deserialize, PartialEq)]
pub enum State {
    Idle,
    InTxn,
    FailedTxn,
    /// COPY FROM STDIN answered with CopyInResponse, n CopyData sent, not finished
    CopyIn(u8),
    /// COPY FROM STDIN inside BEGIN
    CopyInTxn(u8),
    /// a large COPY TO STDOUT whose data the victim does not read
    CopyOutUnread,
    /// statement whose reply the server delays; the victim leaves before it arrives
    MidReply(u16),
    /// extended batch sent without Sync
    OpenBatch,
}

#[derive(Clone, Debug, Serialize, Deserialize, PartialEq)]
pub enum Exit {
    /// finish the open work properly (COMMIT / CopyDone / Sync) and stay connected
    FinishAndStay,
    Terminate,
    Drop,
    /// drop after sending the first k bytes of a further message (0 = Query, 1 = Parse, 2 = Bind, 3 = CopyData)
    DropPartial(u8, u16),
    BadClose,
    BadDescribe,
    BadBind,
    BadParse,
    UnknownStmtBind,
    UnknownStmtDescribe,
    UnknownType(u8),
    /// idle_client_in_transaction_timeout = 100 ms, the victim just waits
    IdleTimeout,
    /// statement_timeout = 150 ms and a statement the server sits on for 500 ms
    StmtTimeout,
    /// the same, but the victim's socket is gone (true: reset, false: closed) 40 ms after it sent the statement, i.e. before
    /// the pooler's statement timeout fires and tries to tell it
    StmtTimeoutClientGone(bool),
}

#[derive(Clone, Debug, Serialize, Deserialize)]
pub struct Case {
    pub cache: bool,
    pub workers: u8,
    #[serde(default)]
    pub session_mode: bool,
    /// each inner list is sent as ONE simple query (so all of it runs in one checkout)
    pub pre: Vec<Vec<Pre>>,
    pub state: State,
    pub exit: Exit,
}

const GUCS: [&str; 5] = ["statement_timeout", "work_mem", "search_path", "lock_timeout", "extra_float_digits"];

pub struct WirePart;

pub fn case_strategy() -> BoxedStrategy<Case> {
    let pre = prop_oneof![
        3 => (0u8..GUCS.len() as u8, "[a-z0-9]{1,6}").prop_map(|(i, v)| Pre::SetGuc(i, v)),
        1 => Just(Pre::SetRole),
        1 => Just(Pre::SqlPrepare),
        1 => Just(Pre::NamedParse),
        2 => (0u8..GUCS.len() as u8).prop_map(Pre::ResetGuc),
        1 => Just(Pre::ResetRole),
        1 => Just(Pre::DeallocateOther),
        1 => Just(Pre::Select),
    ];
    let state = prop_oneof![
        2 => Just(State::Idle),
        3 => Just(State::InTxn),
        2 => Just(State::FailedTxn),
        2 => (0u8..3).prop_map(State::CopyIn),
        1 => (0u8..3).prop_map(State::CopyInTxn),
        1 => Just(State::CopyOutUnread),
        2 => (40u16..160).prop_map(State::MidReply),
        1 => Just(State::OpenBatch),
    ];
    let exit = prop_oneof![
        1 => Just(Exit::FinishAndStay),
        2 => Just(Exit::Terminate),
        2 => Just(Exit::Drop),
        2 => (0u8..4, 1u16..40).prop_map(|(m, k)| Exit::DropPartial(m, k)),
        2 => Just(Exit::BadClose),
        1 => Just(Exit::BadDescribe),
        1 => Just(Exit::BadBind),
        1 => Just(Exit::BadParse),
        1 => Just(Exit::UnknownStmtBind),
        1 => Just(Exit::UnknownStmtDescribe),
        1 => prop_oneof![Just(b'z'), Just(b'0'), Just(b'Y'), Just(b'F')].prop_map(Exit::UnknownType),
        2 => Just(Exit::IdleTimeout),
        1 => Just(Exit::StmtTimeout),
        2 => any::<bool>().prop_map(Exit::StmtTimeoutClientGone),
    ];
    (
        any::<bool>(),
        prop_oneof![Just(1u8), Just(2u8), Just(4u8)],
        prop::bool::weighted(0.25),
        prop::collection::vec(prop::collection::vec(pre, 1..4), 0..3),
        state,
        exit,
    )
        .prop_map(|(cache, workers, session_mode, pre, state, exit)| Case { cache: cache && !session_mode, workers, session_mode, pre, state, exit })
        .boxed()
}

impl Part for WirePart {
    type Case = Case;
    fn prop(&self) -> &'static str {
        "C02"
    }
    fn name(&self) -> &'static str {
        "wire"
    }
    fn wire(&self) -> bool {
        true
    }
    fn rule(&self) -> String {
        "pool_size=1; victim = session state created outside a transaction {SET untracked guc, SET ROLE, SQL PREPARE, named Parse} × server state at exit {idle, in txn, failed txn, COPY IN open (in/outside a block), COPY OUT unread, reply pending, unsynced batch} × exit {finish+stay, Terminate, drop, drop after k bytes of a Query/Parse/Bind/CopyData, malformed Close/Describe/Bind/Parse, Bind/Describe of unknown statement, unknown message type, idle-in-transaction timeout, statement timeout with the victim still there / already gone by close or by reset}; then a probe client runs tagged statements; oracle = mock's session state at the probe's first message on a reused backend connection + the probe reads its own rows. Non-trivial = victim left a non-idle server state or session state behind".into()
    }
    fn cases(&self, tier: Tier) -> u64 {
        tier.pick(2_400, 30_000)
    }
    fn strategy(&self, _tier: Tier) -> BoxedStrategy<Case> {
        case_strategy()
    }
    fn run(&self, c: &Case, ctx: &mut WorkerCtx) -> Outcome {
        wire::run_async(run_case(c, ctx))
    }
}

fn config(mocks: &[crate::mock::MockServer], c: &Case) -> PgcatConfig {
    let mut cfg = PgcatConfig::new();
    cfg.set_general("worker_threads", &c.workers.to_string());
    cfg.set_general("connect_timeout", "4000");
    if c.exit == Exit::IdleTimeout {
        cfg.set_general("idle_client_in_transaction_timeout", "100");
    }
    let servers = vec![ServerDef { host: mocks[0].ip.clone(), port: mocks[0].port, role: "primary".into() }];
    let mut pool = pgc::simple_pool("db", "u", "pw", 1, servers);
    if c.session_mode {
        pool.set("pool_mode", "\"session\"");
    }
    if c.cache {
        pool.set("prepared_statements_cache_size", "8");
    }
    if matches!(c.exit, Exit::StmtTimeout | Exit::StmtTimeoutClientGone(_)) {
        pool.users[0].extra.push(("statement_timeout".into(), "150".into()));
    }
    cfg.pools.push(pool);
    cfg
}

/// The cleanliness predicate of DESIGN Appendix A.2, evaluated on the mock's own session state.
pub fn unclean(snap: &Snap, cache_on: bool) -> Option<String> {
    if snap.txn != b'I' {
        return Some(format!("inside-transaction({})", snap.txn as char));
    }
    if snap.copy != 0 {
        return Some("copy-mode".into());
    }
    if snap.batch_open {
        return Some("unsynced-batch".into());
    }
    if snap.role_set {
        return Some("role-not-reset".into());
    }
    if snap.sql_prepared > 0 {
        return Some("sql-prepared-statement-left".into());
    }
    if !snap.dirty_gucs.is_empty() {
        return Some("guc-not-reset".into());
    }
    let named: Vec<&String> = snap.named_stmts.iter().filter(|n| !(cache_on && n.starts_with("PGCAT_"))).collect();
    if !named.is_empty() {
        return Some("named-statement-left".into());
    }
    None
}

/// Scan a log for hand-overs: a tagged message of client B on a backend connection whose previous
/// tagged message came from client A != B; returns the first unclean one.
pub fn first_dirty_handover(log: &[Event], cache_on: bool) -> Option<(String, String)> {
    let mut last: std::collections::HashMap<u64, u32> = Default::default();
    for e in log {
        if let EvKind::Rx { tags, snap, code, .. } = &e.kind {
            for t in tags {
                if let Some(prev) = last.get(&e.conn) {
                    if *prev != t.client {
                        if let Some(why) = unclean(snap, cache_on) {
                            return Some((
                                why.clone(),
                                format!(
                                    "backend conn {} passed from client c{} to c{} while {} (message '{}', seq {}); snap={:?}",
                                    e.conn, prev, t.client, why, *code as char, e.seq, snap
                                ),
                            ));
                        }
                    }
                }
                last.insert(e.conn, t.client);
            }
        }
    }
    None
}

async fn run_case(c: &Case, ctx: &mut WorkerCtx) -> Outcome {
    let mut o = Outcome::pass();
    let specs = vec![BackendSpec::trust("127.0.0.1", "p0")];
    let env = match Env::start(ctx, &specs, |m| config(m, c)).await {
        Ok(e) => e,
        Err(e) => {
            o.inconclusive = Some(e);
            return o;
        }
    };
    let t0 = std::time::Instant::now();
    let mut v = match env.client(1, "u", "db", "pw", &[]).await {
        Ok(c) => c,
        Err(e) => {
            o.inconclusive = Some(e);
            return o;
        }
    };
    // ---- session state outside a transaction
    for group in &c.pre {
        let mut stmts: Vec<St> = vec![];
        let mut named_parse = false;
        for p in group {
            match p {
                Pre::SetGuc(i, val) => stmts.push(St::new(Sk::Set(GUCS[*i as usize % GUCS.len()].into(), val.clone()))),
                Pre::SetRole => stmts.push(St::new(Sk::SetRole("other_role".into()))),
                Pre::SqlPrepare => stmts.push(St::new(Sk::Raw(format!("PREPARE vict_stmt_{} AS SELECT 1", v.next_stmt + stmts.len() as u32)))),
                Pre::NamedParse => named_parse = true,
                Pre::ResetGuc(i) => stmts.push(St::new(Sk::Raw(format!("RESET {}", GUCS[*i as usize % GUCS.len()])))),
                Pre::ResetRole => stmts.push(St::new(Sk::Raw("RESET ROLE".into()))),
                Pre::DeallocateOther => stmts.push(St::new(Sk::Raw("DEALLOCATE vict_never_prepared".into()))),
                Pre::Select => stmts.push(St::new(Sk::Select)),
            }
        }
        let mut reqs = vec![];
        if !stmts.is_empty() {
            reqs.push(Req::Simple(stmts));
        }
        if named_parse {
            reqs.push(Req::Batch(vec![prog::Ext::Parse(format!("vict_named_{}", v.next_stmt), St::new(Sk::Select), vec![])]));
        }
        for req in reqs {
            let x = prog::run_req(&mut v, &req, t0).await;
            if !matches!(x.end, ReadEnd::Ready(_)) {
                o.inconclusive = Some(format!("victim pre-state request ended {:?}", x.end));
                env.finish().await;
                return o;
            }
        }
    }
    // ---- server state at the exit point
    let mut ok = true;
    match &c.state {
        State::Idle => {}
        State::InTxn => {
            ok &= ready(&prog::run_req(&mut v, &Req::Simple(vec![St::new(Sk::Begin)]), t0).await);
            ok &= ready(&prog::run_req(&mut v, &Req::Simple(vec![St::new(Sk::Insert)]), t0).await);
        }
        State::FailedTxn => {
            ok &= ready(&prog::run_req(&mut v, &Req::Simple(vec![St::new(Sk::Begin)]), t0).await);
            let mut s = St::new(Sk::Select);
            s.err_at = Some(0);
            ok &= ready(&prog::run_req(&mut v, &Req::Simple(vec![s]), t0).await);
        }
        State::CopyIn(n) | State::CopyInTxn(n) => {
            if matches!(c.state, State::CopyInTxn(_)) {
                ok &= ready(&prog::run_req(&mut v, &Req::Simple(vec![St::new(Sk::Begin)]), t0).await);
            }
            let t = v.tag();
            v.send(&proto::query(&format!("{} COPY t FROM STDIN", t.render()))).await;
            let (_m, e) = v.read_until_code(&[b'G', b'Z'], wire::T_REPLY).await;
            ok &= e == ReadEnd::Code(b'G');
            for i in 0..*n {
                v.send(&proto::copy_data(format!("{}:row{}\n", t.short(), i).as_bytes())).await;
            }
        }
        State::CopyOutUnread => {
            let t = v.tag();
            v.send(&proto::query(&format!("{} COPY t TO STDOUT /*@ copyout=3000:200 */", t.render()))).await;
            let _ = env.shared.wait_tag(t, wire::T_REPLY).await;
        }
        State::MidReply(ms) => {
            let t = v.tag();
            v.send(&proto::query(&format!("{} SELECT v FROM t /*@ rows=3 delay={} */", t.render(), ms))).await;
            ok &= env.shared.wait_tag(t, wire::T_REPLY).await.is_some();
        }
        State::OpenBatch => {
            let t = v.tag();
            let mut b = proto::parse("", &format!("{} SELECT v FROM t", t.render()), &[]);
            b.extend_from_slice(&proto::bind("", "", &[], &[], &[]));
            b.extend_from_slice(&proto::execute("", 0));
            v.send(&b).await;
        }
    }
    if !ok {
        o.inconclusive = Some(format!("victim could not establish state {:?}", c.state));
        env.finish().await;
        return o;
    }
    // ---- exit
    let mut victim_left = true;
    match &c.exit {
        Exit::FinishAndStay => {
            victim_left = false;
            match &c.state {
                State::Idle => {}
                State::InTxn | State::FailedTxn => {
                    let _ = prog::run_req(&mut v, &Req::Simple(vec![St::new(Sk::Rollback)]), t0).await;
                }
                State::CopyIn(_) | State::CopyInTxn(_) => {
                    v.send(&proto::copy_done()).await;
                    let _ = v.read_until_ready(wire::T_REPLY).await;
                    if matches!(c.state, State::CopyInTxn(_)) {
                        let _ = prog::run_req(&mut v, &Req::Simple(vec![St::new(Sk::Commit)]), t0).await;
                    }
                }
                State::CopyOutUnread | State::MidReply(_) => {
                    let _ = v.read_until_ready(wire::T_REPLY).await;
                }
                State::OpenBatch => {
                    v.send(&proto::sync()).await;
                    let _ = v.read_until_ready(wire::T_REPLY).await;
                }
            }
        }
        Exit::Terminate => {
            v.send(&proto::terminate()).await;
            v.close();
        }
        Exit::Drop => v.close(),
        Exit::DropPartial(kind, k) => {
            let t = v.tag();
            let full = match kind {
                0 => proto::query(&format!("{} SELECT v FROM t WHERE x = 'partial message'", t.render())),
                1 => proto::parse("pp", &format!("{} SELECT v FROM t", t.render()), &[23]),
                2 => proto::bind("", "pp", &[], &[Some(b"12345".to_vec())], &[]),
                _ => proto::copy_data(b"c1.s99:partial copy row .................\n"),
            };
            let k = (*k as usize).min(full.len() - 1);
            v.send(&full[..k]).await;
            tokio::time::sleep(Duration::from_millis(2)).await;
            v.close();
        }
        Exit::BadClose => {
            v.send(&proto::frame(b'C', &[])).await;
        }
        Exit::BadDescribe => {
            v.send(&proto::frame(b'D', &[])).await;
        }
        Exit::BadBind => {
            v.send(&proto::frame(b'B', b"p")).await;
        }
        Exit::BadParse => {
            v.send(&proto::frame(b'P', b"nm")).await;
        }
        Exit::UnknownStmtBind => {
            let mut b = proto::bind("", "no_such_stmt", &[], &[], &[]);
            b.extend_from_slice(&proto::sync());
            v.send(&b).await;
        }
        Exit::UnknownStmtDescribe => {
            let mut b = proto::describe(b'S', "no_such_stmt");
            b.extend_from_slice(&proto::sync());
            v.send(&b).await;
        }
        Exit::UnknownType(t) => {
            v.send(&proto::frame(*t, b"abc\0")).await;
        }
        Exit::IdleTimeout => {
            victim_left = false;
            tokio::time::sleep(Duration::from_millis(260)).await;
        }
        Exit::StmtTimeout => {
            let t = v.tag();
            v.send(&proto::query(&format!("{} SELECT v FROM t /*@ delay=500 */", t.render()))).await;
            tokio::time::sleep(Duration::from_millis(260)).await;
        }
        Exit::StmtTimeoutClientGone(rst) => {
            let t = v.tag();
            v.send(&proto::query(&format!("{} SELECT v FROM t /*@ delay=500 */", t.render()))).await;
            tokio::time::sleep(Duration::from_millis(40)).await;
            if *rst {
                v.reset();
            } else {
                v.close();
            }
            // until the server has sent its late reply: on a connection that was wrongly kept it is then waiting to be read
            tokio::time::sleep(Duration::from_millis(540)).await;
        }
    }
    if c.session_mode && !victim_left {
        // in session mode the victim owns the only server until it disconnects
        v.send(&proto::terminate()).await;
        v.close();
        victim_left = true;
    }
    env.shared.ctl("victim exit");
    // victims that sent a bad message and are still connected: give pgcat a moment, then leave too
    // (a victim that stays connected and holds the only connection would block the probe for ever,
    // which is about C04/C11, not about cleanliness)
    if victim_left && v.is_open() {
        let _ = v.read_until_closed(Duration::from_millis(150)).await;
        v.close();
    }
    // ---- probe
    let mut p = match env.client(2, "u", "db", "pw", &[]).await {
        Ok(c) => c,
        Err(e) => {
            o.inconclusive = Some(format!("probe login: {}", e));
            env.finish().await;
            return o;
        }
    };
    let mut probe_problem: Option<String> = None;
    let mut good = 0;
    for attempt in 0..6 {
        if good >= 2 {
            break;
        }
        let x = prog::run_req(&mut p, &Req::Simple(vec![St::new(Sk::Select).rows(2)]), t0).await;
        o.sub_evaluations += 1;
        // the probe's own statement can run into the pool's statement_timeout when it was handed a connection on which the
        // victim's late reply is still outstanding: log in again and keep asking - that reply will surface as a foreign one
        if matches!(c.exit, Exit::StmtTimeout | Exit::StmtTimeoutClientGone(_)) && attempt < 5 && x.reply.iter().any(|m| m.code == b'E' && proto::error_message(&m.body).contains("statement timeout")) {
            o.label("probe_hit_statement_timeout");
            tokio::time::sleep(Duration::from_millis(60)).await;
            match env.client(3 + attempt, "u", "db", "pw", &[]).await {
                Ok(np) => p = np,
                Err(e) => {
                    probe_problem = Some(format!("probe re-login: {}", e));
                    break;
                }
            }
            continue;
        }
        if !matches!(x.end, ReadEnd::Ready(_)) {
            probe_problem = Some(format!("probe request ended {:?}, reply codes {:?}", x.end, x.reply.iter().map(|m| m.code as char).collect::<String>()));
            break;
        }
        if let Err(e) = prog::check_own_rows(&x) {
            // an ErrorResponse from the *server* for a clean SELECT also means the session was not clean
            o.fail("probe-read-foreign-reply", format!("probe: {} ; reply codes {:?} errors {:?}", e, x.reply.iter().map(|m| m.code as char).collect::<String>(), crate::cli::errors(&x.reply)));
            break;
        }
        if x.reply.iter().any(|m| m.code == b'E' && proto::error_code(&m.body) == "58000") {
            // pooler-generated error (no connection available): about C04/C07, not about cleanliness
            probe_problem = Some(format!("probe got pooler error {:?}", crate::cli::errors(&x.reply)));
            break;
        }
        if x.reply.iter().any(|m| m.code == b'E') {
            o.fail("probe-got-error", format!("probe's plain SELECT answered with error {:?}", crate::cli::errors(&x.reply)));
            break;
        }
        good += 1;
    }
    let log = env.log();
    let stderr = env.pg.stderr_tail(1200);
    env.finish().await;

    o.label(&format!("state:{}", state_name(&c.state)));
    o.label(&format!("exit:{}", exit_name(&c.exit)));
    o.nontrivial = c.state != State::Idle || !c.pre.is_empty();
    if c.session_mode {
        o.label("session_mode");
    }
    if c.pre.iter().any(|g| g.len() > 1) {
        o.label("multi_statement_session_state");
    }
    // reused or replaced?
    let conns: std::collections::HashSet<u64> = log
        .iter()
        .filter_map(|e| match &e.kind {
            EvKind::Rx { tags, .. } if tags.iter().any(|t| t.client >= 2) => Some(e.conn),
            _ => None,
        })
        .collect();
    let victim_conns: std::collections::HashSet<u64> = log
        .iter()
        .filter_map(|e| match &e.kind {
            EvKind::Rx { tags, .. } if tags.iter().any(|t| t.client == 1) => Some(e.conn),
            _ => None,
        })
        .collect();
    if conns.iter().any(|c| victim_conns.contains(c)) {
        o.label("connection_reused");
    } else if !conns.is_empty() {
        o.label("connection_replaced");
    }
    if o.violation.is_some() {
        let d = o.violation.as_mut().unwrap();
        d.sig = format!("{}|state={}|exit={}", d.sig, state_name(&c.state), exit_name(&c.exit));
        return o;
    }
    if let Some((why, detail)) = first_dirty_handover(&log, c.cache) {
        o.fail(&format!("{}|state={}|exit={}", why, state_name(&c.state), exit_name(&c.exit)), format!("{}\npgcat stderr tail: {}", detail, stderr));
        return o;
    }
    if let Some(pp) = probe_problem {
        o.inconclusive = Some(format!("{} (state {:?}, exit {:?})", pp, c.state, c.exit));
    }
    o
}

fn ready(x: &prog::Exchange) -> bool {
    matches!(x.end, ReadEnd::Ready(_))
}

pub fn state_name(s: &State) -> &'static str {
    match s {
        State::Idle => "idle",
        State::InTxn => "in_txn",
        State::FailedTxn => "failed_txn",
        State::CopyIn(_) => "copy_in",
        State::CopyInTxn(_) => "copy_in_txn",
        State::CopyOutUnread => "copy_out_unread",
        State::MidReply(_) => "mid_reply",
        State::OpenBatch => "open_batch",
    }
}

pub fn exit_name(e: &Exit) -> &'static str {
    match e {
        Exit::FinishAndStay => "finish_stay",
        Exit::Terminate => "terminate",
        Exit::Drop => "drop",
        Exit::DropPartial(..) => "drop_partial",
        Exit::BadClose => "bad_close",
        Exit::BadDescribe => "bad_describe",
        Exit::BadBind => "bad_bind",
        Exit::BadParse => "bad_parse",
        Exit::UnknownStmtBind => "unknown_stmt_bind",
        Exit::UnknownStmtDescribe => "unknown_stmt_describe",
        Exit::UnknownType(_) => "unknown_type",
        Exit::IdleTimeout => "idle_timeout",
        Exit::StmtTimeout => "stmt_timeout",
        Exit::StmtTimeoutClientGone(true) => "stmt_timeout_client_reset",
        Exit::StmtTimeoutClientGone(false) => "stmt_timeout_client_closed",
    }
}
