//! C11, stage 1: coverage-guided libFuzzer campaigns over pgcat's client-input decoders and query
//! router (crate /verif/fuzz, built by ./check with `cargo fuzz build -s none`), driven and judged
//! from here. The semantic oracle sits inside the targets (reference framer / reference start-up
//! parser, allocation bound, panic classification); this module runs fixed-work campaigns, turns
//! libFuzzer's verdicts into VIOLATION lines and writes the evidence numbers.

use crate::engine::{PartReport, Tier};
use serde_json::json;
use std::path::{Path, PathBuf};
use std::process::{Command, Stdio};
use std::time::Instant;

pub const BIN_DIR: &str = "/verif/target/fuzz/x86_64-unknown-linux-gnu/release";
pub const WORK: &str = "/verif/target/fuzz-work";

pub struct Target {
    pub name: &'static str,
    pub max_len: u32,
    pub runs_quick: u64,
    pub runs_thorough: u64,
}

pub const TARGETS: &[Target] = &[
    Target { name: "c11_decoders", max_len: 600, runs_quick: 150_000, runs_thorough: 6_000_000 },
    Target { name: "c11_router", max_len: 1024, runs_quick: 12_000, runs_thorough: 600_000 },
];

const PROCS: u64 = 8;

fn files_in(dir: &str) -> Vec<PathBuf> {
    let mut v: Vec<PathBuf> = std::fs::read_dir(dir).map(|r| r.filter_map(|e| e.ok()).map(|e| e.path()).filter(|p| p.is_file()).collect()).unwrap_or_default();
    v.sort();
    v
}

fn common_args(t: &Target) -> Vec<String> {
    vec![
        format!("-max_len={}", t.max_len),
        "-timeout=10".into(),
        "-rss_limit_mb=3072".into(),
        "-malloc_limit_mb=1024".into(),
        "-len_control=0".into(),
        "-print_final_stats=1".into(),
        format!("-artifact_prefix=/verif/replays/C11/fuzz-{}-", t.name),
    ]
}

struct RunOut {
    code: i32,
    stderr: String,
}

fn run(bin: &Path, args: &[String]) -> std::io::Result<std::process::Child> {
    Command::new(bin).args(args).stdin(Stdio::null()).stdout(Stdio::null()).stderr(Stdio::piped()).env_remove("PGVERIF_EXPORT").spawn()
}

fn finish(child: std::process::Child) -> RunOut {
    match child.wait_with_output() {
        Ok(o) => RunOut { code: o.status.code().unwrap_or(-1), stderr: String::from_utf8_lossy(&o.stderr).to_string() },
        Err(e) => RunOut { code: -2, stderr: e.to_string() },
    }
}

fn stat(stderr: &str, key: &str) -> u64 {
    stderr.lines().filter_map(|l| l.strip_prefix(key)).filter_map(|r| r.trim().parse::<u64>().ok()).last().unwrap_or(0)
}

/// Turn a failed libFuzzer process into (signature, detail, replay path).
fn verdict(t: &Target, out: &RunOut, fallback_file: Option<&Path>) -> (String, String, String) {
    let artifact = out
        .stderr
        .lines()
        .filter_map(|l| l.split("Test unit written to ").nth(1))
        .map(|s| s.trim().to_string())
        .last()
        .or_else(|| out.stderr.lines().filter_map(|l| l.strip_prefix("Running: ")).map(|s| s.trim().to_string()).last())
        .or_else(|| fallback_file.map(|p| p.to_string_lossy().to_string()))
        .unwrap_or_else(|| "-".into());
    let oracle = out.stderr.lines().find(|l| l.contains("ORACLE-VIOLATION")).map(|l| l.to_string());
    let kind = if let Some(o) = &oracle {
        let what = o.split("property=C11 ").nth(1).unwrap_or("");
        let head: String = what.split(':').next().unwrap_or("").chars().take(60).collect();
        format!("oracle:{}", head.replace(' ', "-"))
    } else if out.stderr.contains("ERROR: libFuzzer: timeout") {
        "hang".to_string()
    } else if out.stderr.contains("out-of-memory") {
        "memory-blow-up".to_string()
    } else if out.stderr.contains("has overflowed its stack") {
        "stack-overflow".to_string()
    } else {
        "abort".to_string()
    };
    let tail: Vec<&str> = out.stderr.lines().rev().take(25).collect();
    let detail = format!("libFuzzer target {} exited {}: {}\n{}", t.name, out.code, oracle.unwrap_or_default(), tail.into_iter().rev().collect::<Vec<_>>().join("\n"));
    (format!("fuzz:{}:{}", t.name, kind), detail, artifact)
}

pub fn fuzz_stage(tier: Tier, seed: u64) -> PartReport {
    let start = Instant::now();
    let mut r = PartReport {
        prop: "C11".into(),
        name: "fuzz".into(),
        rule: "libFuzzer (SanitizerCoverage, value profile) on two in-process targets: c11_decoders = byte 0 selects {read_message over a stream of frames vs a reference framer; parse_startup / parse_params vs a reference parser; Parse, Bind (+get_name, rename), Describe, Close decoders and their re-encoders on a well-framed body}; c11_router = QueryRouter::{try_execute_command, parse, infer, infer_shard_from_bind} under four pool configurations on Query / Parse+Bind / raw payloads. In-target oracle: no hang (-timeout=10), no abort (stack overflow, allocation failure), peak heap during the call <= 1 MiB + 64 x input length (counting global allocator; -malloc_limit_mb=1024). A panic, or a framing / start-up result that differs from the reference, concerns only the sender and is not a violation at this level: such inputs are exported (committed snapshot /verif/fuzz/panics) and replayed by the wire stage, which judges their effect on other clients. Committed corpus and regression inputs are replayed first, then 8 processes per target run a fixed number of executions from VERIF_SEED. cases = executions; non-trivial = executions that added coverage (libFuzzer new units) plus replayed corpus units".into(),
        ..Default::default()
    };
    let _ = std::fs::create_dir_all("/verif/replays/C11");
    for t in TARGETS {
        let bin = Path::new(BIN_DIR).join(t.name);
        if !bin.exists() {
            r.harness_error = Some(format!("fuzz target {} not built ({}); run ./check build", t.name, bin.display()));
            return r;
        }
        // ---- replay: regression inputs one by one (so that the failing file is known), then the committed corpus
        for f in files_in(&format!("/verif/fuzz/regress/{}", t.name)) {
            let mut a = common_args(t);
            a.push(f.to_string_lossy().to_string());
            match run(&bin, &a).map(finish) {
                Ok(o) => {
                    r.evaluations += 1;
                    r.nontrivial += 1;
                    *r.labels.entry(format!("{}:regress", t.name)).or_default() += 1;
                    if o.code != 0 {
                        let (sig, detail, _) = verdict(t, &o, Some(&f));
                        r.violations.push((sig, detail, f.to_string_lossy().to_string()));
                    }
                }
                Err(e) => r.harness_error = Some(format!("cannot run {}: {}", t.name, e)),
            }
        }
        let corpus_dir = format!("/verif/fuzz/corpus/{}", t.name);
        let corpus = files_in(&corpus_dir);
        if !corpus.is_empty() {
            let mut a = common_args(t);
            a.push("-runs=0".into());
            a.push(corpus_dir.clone());
            match run(&bin, &a).map(finish) {
                Ok(o) => {
                    r.evaluations += corpus.len() as u64;
                    r.nontrivial += corpus.len() as u64;
                    *r.labels.entry(format!("{}:corpus", t.name)).or_default() += corpus.len() as u64;
                    if o.code != 0 {
                        r.violations.push(verdict(t, &o, None));
                    }
                }
                Err(e) => r.harness_error = Some(format!("cannot run {}: {}", t.name, e)),
            }
        }
    }
    if !r.violations.is_empty() || r.harness_error.is_some() {
        r.wall_s = start.elapsed().as_secs_f64();
        return r;
    }
    // ---- campaigns: PROCS processes per target, all targets in parallel, fixed work
    let mut children = vec![];
    for t in TARGETS {
        let bin = Path::new(BIN_DIR).join(t.name);
        let runs = tier.pick(t.runs_quick, t.runs_thorough);
        for k in 0..PROCS {
            let work = format!("{}/{}.{}", WORK, t.name, k);
            let _ = std::fs::remove_dir_all(&work);
            let _ = std::fs::create_dir_all(&work);
            let mut a = common_args(t);
            a.push(format!("-runs={}", runs));
            // libFuzzer treats seed 0 as "random"
            a.push(format!("-seed={}", (seed.wrapping_mul(1000).wrapping_add(k * 17 + 1) % 4_000_000_000).max(1)));
            a.push(work.clone());
            let corpus_dir = format!("/verif/fuzz/corpus/{}", t.name);
            if Path::new(&corpus_dir).is_dir() {
                a.push(corpus_dir);
            }
            match run(&bin, &a) {
                Ok(c) => children.push((t, k, work, c)),
                Err(e) => r.harness_error = Some(format!("cannot run {}: {}", t.name, e)),
            }
        }
    }
    for (t, k, work, c) in children {
        let o = finish(c);
        let execs = stat(&o.stderr, "stat::number_of_executed_units:");
        let newu = stat(&o.stderr, "stat::new_units_added:");
        r.evaluations += execs;
        r.nontrivial += newu;
        r.distinct_nontrivial += newu;
        *r.labels.entry(format!("{}:executions", t.name)).or_default() += execs;
        *r.labels.entry(format!("{}:coverage-increasing", t.name)).or_default() += newu;
        if o.code != 0 {
            if r.violations.is_empty() {
                r.violations.push(verdict(t, &o, None));
            }
        } else if k == 0 {
            let cov = o.stderr.lines().rev().find(|l| l.contains("DONE") && l.contains("cov:")).unwrap_or("").to_string();
            r.samples.push(json!({"target": t.name, "process": k, "final": cov.trim()}));
            for f in files_in(&work).into_iter().take(2) {
                if let Ok(b) = std::fs::read(&f) {
                    r.samples.push(json!({"target": t.name, "coverage_increasing_input_hex": b.iter().take(96).map(|x| format!("{:02x}", x)).collect::<String>()}));
                }
            }
        }
        let _ = std::fs::remove_dir_all(&work);
    }
    r.wall_s = start.elapsed().as_secs_f64();
    r
}

/// `./check C11 --replay <artifact>` for a libFuzzer artifact (any file that is not a JSON scenario).
pub fn replay_artifact(path: &str) -> PartReport {
    let mut r = PartReport { prop: "C11".into(), name: "fuzz".into(), rule: "replay of a libFuzzer artifact".into(), ..Default::default() };
    let base = Path::new(path).file_name().map(|s| s.to_string_lossy().to_string()).unwrap_or_default();
    let dir = Path::new(path).parent().map(|p| p.to_string_lossy().to_string()).unwrap_or_default();
    let mut tried = false;
    for t in TARGETS {
        if !(base.contains(t.name) || dir.ends_with(t.name)) {
            continue;
        }
        tried = true;
        let bin = Path::new(BIN_DIR).join(t.name);
        let mut a = common_args(t);
        a.retain(|x| !x.starts_with("-artifact_prefix"));
        a.push(format!("-artifact_prefix={}/replay-", WORK));
        a.push(path.to_string());
        let _ = std::fs::create_dir_all(WORK);
        match run(&bin, &a).map(finish) {
            Ok(o) => {
                r.evaluations += 1;
                if o.code != 0 {
                    let (sig, detail, _) = verdict(t, &o, None);
                    r.violations.push((sig, detail, path.to_string()));
                }
            }
            Err(e) => r.harness_error = Some(format!("cannot run {}: {}", t.name, e)),
        }
    }
    if !tried {
        r.harness_error = Some(format!("{}: cannot tell which fuzz target this artifact belongs to (expected the target name in the file or directory name)", path));
    }
    r
}
