//! Generic property runner: parallel workers, proptest generation + manual shrinking with a
//! signature-preserving oracle, known-finding handling, replay files, evidence.

use crate::pgc::PortAlloc;
use proptest::strategy::{BoxedStrategy, Strategy, ValueTree};
use proptest::test_runner::{Config, RngAlgorithm, TestRng, TestRunner};
use serde::de::DeserializeOwned;
use serde::Serialize;
use serde_json::{json, Value};
use std::collections::{BTreeMap, HashSet};
use std::path::PathBuf;
use std::sync::atomic::{AtomicBool, AtomicU64, Ordering};
use std::sync::{Arc, Mutex};
use std::time::Instant;

#[derive(Clone, Copy, Debug, PartialEq, Eq)]
pub enum Tier {
    Quick,
    Thorough,
}

impl Tier {
    pub fn name(&self) -> &'static str {
        match self {
            Tier::Quick => "quick",
            Tier::Thorough => "thorough",
        }
    }
    pub fn pick<T>(&self, q: T, t: T) -> T {
        match self {
            Tier::Quick => q,
            Tier::Thorough => t,
        }
    }
}

#[derive(Clone, Debug)]
pub struct Violation {
    /// structural class of the failure; known findings are keyed on it
    pub sig: String,
    pub detail: String,
}

#[derive(Clone, Debug, Default)]
pub struct Outcome {
    pub violation: Option<Violation>,
    pub nontrivial: bool,
    pub labels: Vec<String>,
    /// harness-level problem (stall not covered by the property, spawn failure...)
    pub inconclusive: Option<String>,
    /// number of generated sub-inputs this case excluded because they belong to a known finding
    pub excluded_known: u64,
    /// extra evaluations inside the case (e.g. messages in a session)
    pub sub_evaluations: u64,
}

impl Outcome {
    pub fn pass() -> Outcome {
        Outcome::default()
    }
    pub fn label(&mut self, s: &str) {
        if !self.labels.iter().any(|x| x == s) {
            self.labels.push(s.to_string());
        }
    }
    pub fn fail(&mut self, sig: &str, detail: String) {
        if self.violation.is_none() {
            self.violation = Some(Violation { sig: sig.to_string(), detail });
        }
    }
}

/// Confirmation of failures that rest on elapsed time (a latency bound, a watchdog, a timeout configured in pgcat that fired).
/// One such observation can be the environment's doing - the harness thread or one of pgcat's threads not scheduled for a few
/// hundred milliseconds - so it counts only when the same case, executed again from scratch `extra_runs` times, fails again
/// every time (DESIGN.md section 3 "Stalls", section 7). A fault that really makes pgcat wait is there in every execution
/// (the generated faults last the whole case). Failures with any other signature (byte-level oracles) are returned as they are,
/// also when they only show up in a re-execution. A signal that does not reproduce makes the case inconclusive: it is counted and
/// sampled in the evidence, and more than 25 % inconclusive cases is a harness error.
pub fn confirm_timed<F: FnMut() -> Outcome>(first: Outcome, timed_sigs: &[&str], extra_runs: u32, mut rerun: F) -> Outcome {
    let is_timed = |o: &Outcome| o.violation.as_ref().map(|v| timed_sigs.contains(&v.sig.as_str())).unwrap_or(false);
    if !is_timed(&first) {
        return first;
    }
    let mut first = first;
    for i in 0..extra_runs {
        let again = rerun();
        if again.violation.is_some() && !is_timed(&again) {
            return again;
        }
        if again.violation.is_none() {
            let v = first.violation.take().unwrap();
            let mut short: String = v.detail.chars().take(1200).collect();
            if short.len() < v.detail.len() {
                short.push('…');
            }
            first.label("timed-signal-not-reproduced");
            first.inconclusive = Some(format!(
                "time-derived signal `{}` of execution 1 did not show in execution {} of the same case{}: {}",
                v.sig,
                i + 2,
                again.inconclusive.as_ref().map(|w| format!(" (which was itself inconclusive: {})", w)).unwrap_or_default(),
                short
            ));
            return first;
        }
    }
    first.label("timed-signal-confirmed");
    if let Some(v) = first.violation.as_mut() {
        v.detail = format!("[reproduced in {} of {} executions of the case] {}", extra_runs + 1, extra_runs + 1, v.detail);
    }
    first
}

pub struct WorkerCtx {
    pub worker: usize,
    pub ports: PortAlloc,
    pub dir: PathBuf,
    pub tier: Tier,
    pub rt: Option<tokio::runtime::Runtime>,
    pub case_no: u64,
    /// set by the engine while it shrinks a failing case: checks that confirm time-derived failures by re-execution decide each
    /// shrink candidate on one execution (the original and the final case are confirmed in full)
    pub shrinking: bool,
}

impl WorkerCtx {
    pub fn new(worker: usize, tier: Tier, prop: &str, with_rt: bool) -> WorkerCtx {
        let dir = PathBuf::from(format!("/verif/work/{}/w{}", prop, worker));
        let _ = std::fs::create_dir_all(&dir);
        let rt = if with_rt {
            Some(tokio::runtime::Builder::new_current_thread().enable_all().build().unwrap())
        } else {
            None
        };
        WorkerCtx { worker, ports: PortAlloc::new(worker), dir, tier, rt, case_no: 0, shrinking: false }
    }
}

pub trait Part: Sync {
    type Case: Clone + std::fmt::Debug + Serialize + DeserializeOwned + Send + 'static;
    fn prop(&self) -> &'static str;
    fn name(&self) -> &'static str;
    fn rule(&self) -> String;
    fn wire(&self) -> bool;
    fn cases(&self, tier: Tier) -> u64;
    fn max_shrink(&self) -> u32 {
        if self.wire() {
            40
        } else {
            1500
        }
    }
    fn jobs(&self, _tier: Tier) -> usize {
        16
    }
    fn strategy(&self, tier: Tier) -> BoxedStrategy<Self::Case>;
    fn run(&self, case: &Self::Case, ctx: &mut WorkerCtx) -> Outcome;
    /// minimum fraction of evaluated cases that must be non-trivial (generator health floor)
    fn nontrivial_floor(&self) -> f64 {
        0.02
    }
}

#[derive(Default)]
pub struct PartReport {
    pub prop: String,
    pub name: String,
    pub rule: String,
    pub evaluations: u64,
    pub sub_evaluations: u64,
    pub nontrivial: u64,
    pub distinct_nontrivial: u64,
    pub labels: BTreeMap<String, u64>,
    pub samples: Vec<Value>,
    pub violations: Vec<(String, String, String)>,
    pub known_hits: BTreeMap<String, u64>,
    pub excluded_known: u64,
    pub inconclusive: u64,
    pub inconclusive_samples: Vec<String>,
    pub known_lines: Vec<String>,
    pub wall_s: f64,
    pub harness_error: Option<String>,
    pub exhaustive: bool,
}

#[derive(Default)]
struct Stats {
    evaluations: u64,
    sub_evaluations: u64,
    nontrivial: u64,
    distinct: HashSet<u64>,
    labels: BTreeMap<String, u64>,
    samples: Vec<Value>,
    known_hits: BTreeMap<String, u64>,
    excluded_known: u64,
    inconclusive: u64,
    inconclusive_samples: Vec<String>,
}

/// Placeholder report for a library-level part when the harness was built without the `lib` feature because pgcat's crate
/// no longer offers the API those parts call (./check falls back to that build): the property's wire half still runs.
#[allow(dead_code)]
pub fn lib_unavailable(prop: &str, name: &str) -> PartReport {
    PartReport {
        prop: prop.into(),
        name: name.into(),
        rule: "library-level half: not built".into(),
        harness_error: Some("the library-level half of this check does not build against /repo (pgcat's internal API changed): see /verif/target/build-harness.log; the wire half was run".into()),
        ..Default::default()
    }
}

pub fn fnv(s: &[u8]) -> u64 {
    let mut h: u64 = 0xcbf29ce484222325;
    for b in s {
        h ^= *b as u64;
        h = h.wrapping_mul(0x100000001b3);
    }
    h
}

#[derive(Clone, Debug)]
pub struct KnownFinding {
    pub prop: String,
    pub part: String,
    pub sig: String,
    pub replay: Option<String>,
    pub what: String,
}

/// known_findings.txt lines:
///   open: property=C05 part=lib sig=<sig> replay=<path|-> :: <what fails>
///   fixed: property=C13 <commit> <what failed>
pub fn load_known() -> Vec<KnownFinding> {
    let text = std::fs::read_to_string("/verif/known_findings.txt").unwrap_or_default();
    let mut out = vec![];
    for line in text.lines() {
        let line = line.trim();
        if let Some(rest) = line.strip_prefix("open:") {
            let (head, what) = match rest.split_once("::") {
                Some((a, b)) => (a, b.trim().to_string()),
                None => (rest, String::new()),
            };
            let mut k = KnownFinding { prop: String::new(), part: String::new(), sig: String::new(), replay: None, what };
            for tok in head.split_whitespace() {
                if let Some(v) = tok.strip_prefix("property=") {
                    k.prop = v.into();
                } else if let Some(v) = tok.strip_prefix("part=") {
                    k.part = v.into();
                } else if let Some(v) = tok.strip_prefix("sig=") {
                    k.sig = v.into();
                } else if let Some(v) = tok.strip_prefix("replay=") {
                    if v != "-" {
                        k.replay = Some(v.into());
                    }
                }
            }
            if !k.prop.is_empty() && !k.sig.is_empty() {
                out.push(k);
            }
        }
    }
    out
}

fn seed_bytes(seed: u64, prop: &str, part: &str, worker: usize) -> [u8; 32] {
    let mut out = [0u8; 32];
    let a = fnv(format!("{}|{}|{}|{}|a", seed, prop, part, worker).as_bytes());
    let b = fnv(format!("{}|{}|{}|{}|b", seed, prop, part, worker).as_bytes());
    let c = fnv(format!("{}|{}|{}|{}|c", seed, prop, part, worker).as_bytes());
    let d = fnv(format!("{}|{}|{}|{}|d", seed, prop, part, worker).as_bytes());
    out[..8].copy_from_slice(&a.to_le_bytes());
    out[8..16].copy_from_slice(&b.to_le_bytes());
    out[16..24].copy_from_slice(&c.to_le_bytes());
    out[24..].copy_from_slice(&d.to_le_bytes());
    out
}

fn replay_path(prop: &str, part: &str, case_json: &str) -> String {
    let dir = format!("/verif/replays/{}", prop);
    let _ = std::fs::create_dir_all(&dir);
    format!("{}/{}-{:016x}.json", dir, part, fnv(case_json.as_bytes()))
}

pub fn write_replay<C: Serialize>(prop: &str, part: &str, case: &C, sig: &str, detail: &str) -> String {
    let cj = serde_json::to_string(case).unwrap_or_default();
    let path = replay_path(prop, part, &cj);
    let doc = json!({"property": prop, "part": part, "signature": sig, "detail": detail, "case": serde_json::to_value(case).unwrap_or(Value::Null)});
    let _ = std::fs::write(&path, serde_json::to_string_pretty(&doc).unwrap());
    path
}

/// Run the fixed regression cases and known-finding replays of a part, then the generated search.
pub fn run_part<P: Part>(p: &P, tier: Tier, seed: u64) -> PartReport {
    let start = Instant::now();
    let known: Vec<KnownFinding> = load_known().into_iter().filter(|k| k.prop == p.prop() && k.part == p.name()).collect();
    let known_sigs: HashSet<String> = known.iter().map(|k| k.sig.clone()).collect();
    let mut report = PartReport { prop: p.prop().into(), name: p.name().into(), rule: p.rule(), ..Default::default() };

    // ---- known findings: replay each, print KNOWN-FINDING when it still fails with its signature
    {
        let mut ctx = WorkerCtx::new(90, tier, p.prop(), p.wire());
        for k in &known {
            let mut still = false;
            if let Some(path) = &k.replay {
                let full = if path.starts_with('/') { path.clone() } else { format!("/verif/{}", path) };
                match load_case::<P::Case>(&full) {
                    Ok(case) => {
                        for _ in 0..3 {
                            let o = p.run(&case, &mut ctx);
                            if let Some(v) = &o.violation {
                                if v.sig == k.sig {
                                    still = true;
                                    break;
                                }
                            }
                        }
                    }
                    Err(e) => report.harness_error = Some(format!("known-finding replay {} unreadable: {}", full, e)),
                }
            }
            if still {
                report.known_lines.push(format!("KNOWN-FINDING: property={} {} [sig={}]", p.prop(), k.what, k.sig));
            }
        }
        // ---- regression cases (committed minimal scenarios), executed before any generation
        let rdir = format!("/verif/regress/{}/{}", p.prop(), p.name());
        if let Ok(rd) = std::fs::read_dir(&rdir) {
            let mut files: Vec<_> = rd.filter_map(|e| e.ok()).map(|e| e.path()).filter(|p| p.extension().map(|x| x == "json").unwrap_or(false)).collect();
            files.sort();
            for f in files {
                match load_case::<P::Case>(f.to_str().unwrap()) {
                    Ok(case) => {
                        let o = p.run(&case, &mut ctx);
                        report.evaluations += 1;
                        if let Some(v) = o.violation {
                            if known_sigs.contains(&v.sig) {
                                *report.known_hits.entry(v.sig).or_default() += 1;
                            } else {
                                report.violations.push((v.sig, v.detail, f.to_string_lossy().to_string()));
                            }
                        }
                    }
                    Err(e) => report.harness_error = Some(format!("regression case {:?} unreadable: {}", f, e)),
                }
            }
        }
    }
    if !report.violations.is_empty() {
        report.wall_s = start.elapsed().as_secs_f64();
        return report;
    }

    // ---- generated search
    let total = p.cases(tier);
    let jobs = p.jobs(tier).max(1).min(total.max(1) as usize);
    let stats = Arc::new(Mutex::new(Stats::default()));
    let failed = Arc::new(AtomicBool::new(false));
    let failure: Arc<Mutex<Option<(String, String, String)>>> = Arc::new(Mutex::new(None));
    let done = Arc::new(AtomicU64::new(0));
    std::thread::scope(|scope| {
        for w in 0..jobs {
            let stats = stats.clone();
            let failed = failed.clone();
            let failure = failure.clone();
            let done = done.clone();
            let known_sigs = known_sigs.clone();
            let n = total / jobs as u64 + if (w as u64) < total % jobs as u64 { 1 } else { 0 };
            scope.spawn(move || {
                let strategy = p.strategy(tier);
                let mut ctx = WorkerCtx::new(w, tier, p.prop(), p.wire());
                let rng = TestRng::from_seed(RngAlgorithm::ChaCha, &seed_bytes(seed, p.prop(), p.name(), w));
                let mut runner = TestRunner::new_with_rng(Config { failure_persistence: None, ..Config::default() }, rng);
                for _ in 0..n {
                    if failed.load(Ordering::SeqCst) {
                        break;
                    }
                    let mut tree = match strategy.new_tree(&mut runner) {
                        Ok(t) => t,
                        Err(_) => continue,
                    };
                    let case = tree.current();
                    ctx.case_no += 1;
                    // debugging aid: PGVERIF_CASE_DIR=<dir> keeps every generated case as <dir>/<part>-w<worker>-<n>.json
                    if let Ok(d) = std::env::var("PGVERIF_CASE_DIR") {
                        let _ = std::fs::create_dir_all(&d);
                        let _ = std::fs::write(format!("{}/{}-w{}-{}.json", d, p.name(), w, ctx.case_no), serde_json::to_string(&case).unwrap_or_default());
                    }
                    let o = p.run(&case, &mut ctx);
                    done.fetch_add(1, Ordering::Relaxed);
                    let mut unknown: Option<crate::engine::Violation> = None;
                    {
                        let mut s = stats.lock().unwrap();
                        if failed.load(Ordering::SeqCst) {
                            break;
                        }
                        s.evaluations += 1;
                        s.sub_evaluations += o.sub_evaluations;
                        s.excluded_known += o.excluded_known;
                        for l in &o.labels {
                            *s.labels.entry(l.clone()).or_default() += 1;
                        }
                        if let Some(why) = &o.inconclusive {
                            s.inconclusive += 1;
                            if s.inconclusive_samples.len() < 5 {
                                s.inconclusive_samples.push(why.clone());
                            }
                        }
                        if o.nontrivial {
                            s.nontrivial += 1;
                            let cj = serde_json::to_string(&case).unwrap_or_default();
                            if s.distinct.insert(fnv(cj.as_bytes())) && s.samples.len() < 4 {
                                let v = serde_json::to_value(&case).unwrap_or(Value::Null);
                                s.samples.push(truncate_value(v));
                            }
                        }
                        if let Some(v) = &o.violation {
                            if known_sigs.contains(&v.sig) {
                                *s.known_hits.entry(v.sig.clone()).or_default() += 1;
                            } else {
                                unknown = Some(v.clone());
                            }
                        }
                    }
                    if let Some(v) = unknown {
                        if failed.swap(true, Ordering::SeqCst) {
                            break;
                        }
                        // shrink, preserving the signature
                        let mut best = case.clone();
                        let mut best_detail = v.detail.clone();
                        let mut iters = 0u32;
                        let max = p.max_shrink();
                        ctx.shrinking = true;
                        'shrink: loop {
                            if !tree.simplify() {
                                break;
                            }
                            loop {
                                iters += 1;
                                if iters > max {
                                    break 'shrink;
                                }
                                let c = tree.current();
                                let o2 = p.run(&c, &mut ctx);
                                let same = o2.violation.as_ref().map(|x| x.sig == v.sig).unwrap_or(false);
                                if same {
                                    best = c;
                                    best_detail = o2.violation.unwrap().detail;
                                    break;
                                } else if !tree.complicate() {
                                    break 'shrink;
                                }
                            }
                        }
                        ctx.shrinking = false;
                        if iters > 0 {
                            // the minimal case must fail by itself with every confirmation the check applies, else the case as generated is kept
                            let o3 = p.run(&best, &mut ctx);
                            match o3.violation {
                                Some(x) if x.sig == v.sig => best_detail = x.detail,
                                _ => {
                                    best = case.clone();
                                    best_detail = v.detail.clone();
                                }
                            }
                        }
                        let path = write_replay(p.prop(), p.name(), &best, &v.sig, &best_detail);
                        *failure.lock().unwrap() = Some((v.sig.clone(), best_detail, path));
                        break;
                    }
                }
            });
        }
    });

    let s = Arc::try_unwrap(stats).ok().map(|m| m.into_inner().unwrap()).unwrap_or_default();
    report.evaluations += s.evaluations;
    report.sub_evaluations = s.sub_evaluations;
    report.nontrivial = s.nontrivial;
    report.distinct_nontrivial = s.distinct.len() as u64;
    report.labels = s.labels;
    report.samples = s.samples;
    for (k, v) in s.known_hits {
        *report.known_hits.entry(k).or_default() += v;
    }
    report.excluded_known = s.excluded_known;
    report.inconclusive = s.inconclusive;
    report.inconclusive_samples = s.inconclusive_samples;
    if let Some(f) = failure.lock().unwrap().take() {
        report.violations.push(f);
    }
    // a known signature hit in generation but whose replay was not listed still deserves its line
    for k in &known {
        if report.known_hits.contains_key(&k.sig) && !report.known_lines.iter().any(|l| l.contains(&format!("[sig={}]", k.sig))) {
            report.known_lines.push(format!("KNOWN-FINDING: property={} {} [sig={}]", p.prop(), k.what, k.sig));
        }
    }
    if report.violations.is_empty() && report.harness_error.is_none() {
        if report.evaluations > 0 && report.inconclusive * 4 > report.evaluations {
            report.harness_error = Some(format!(
                "{} of {} cases inconclusive: {:?}",
                report.inconclusive, report.evaluations, report.inconclusive_samples
            ));
        } else if s.evaluations >= 20 && (report.nontrivial as f64) < p.nontrivial_floor() * s.evaluations as f64 {
            report.harness_error = Some(format!(
                "generator health: only {} of {} cases non-trivial (floor {})",
                report.nontrivial,
                s.evaluations,
                p.nontrivial_floor()
            ));
        }
    }
    report.wall_s = start.elapsed().as_secs_f64();
    report
}

fn truncate_value(v: Value) -> Value {
    let s = serde_json::to_string(&v).unwrap_or_default();
    if s.len() > 6000 {
        let mut cut = 6000;
        while !s.is_char_boundary(cut) {
            cut -= 1;
        }
        json!({"truncated_json": &s[..cut]})
    } else {
        v
    }
}

pub fn load_case<C: DeserializeOwned>(path: &str) -> Result<C, String> {
    let text = std::fs::read_to_string(path).map_err(|e| e.to_string())?;
    let v: Value = serde_json::from_str(&text).map_err(|e| e.to_string())?;
    let c = match v.get("case") {
        Some(c) => c.clone(),
        None => v,
    };
    serde_json::from_value(c).map_err(|e| e.to_string())
}

/// Replay one stored case `times` times; returns the part report.
pub fn replay_part<P: Part>(p: &P, path: &str, tier: Tier, times: u32) -> PartReport {
    let start = Instant::now();
    let mut report = PartReport { prop: p.prop().into(), name: p.name().into(), rule: p.rule(), ..Default::default() };
    let known: HashSet<String> = load_known().into_iter().filter(|k| k.prop == p.prop() && k.part == p.name()).map(|k| k.sig).collect();
    match load_case::<P::Case>(path) {
        Err(e) => report.harness_error = Some(format!("cannot load {}: {}", path, e)),
        Ok(case) => {
            let mut ctx = WorkerCtx::new(91, tier, p.prop(), p.wire());
            for _ in 0..times {
                let o = p.run(&case, &mut ctx);
                report.evaluations += 1;
                if o.nontrivial {
                    report.nontrivial += 1;
                    report.distinct_nontrivial = 1;
                }
                if let Some(v) = o.violation {
                    if known.contains(&v.sig) {
                        *report.known_hits.entry(v.sig.clone()).or_default() += 1;
                        report.known_lines.push(format!("KNOWN-FINDING: property={} replayed case still fails [sig={}]", p.prop(), v.sig));
                    } else {
                        report.violations.push((v.sig, v.detail, path.to_string()));
                    }
                    break;
                }
            }
            report.samples.push(truncate_value(serde_json::to_value(&case).unwrap_or(Value::Null)));
        }
    }
    report.wall_s = start.elapsed().as_secs_f64();
    report
}

/// Map a 16-bit choice monotonically onto 0..len (so shrinking a choice shrinks the action).
pub fn pick(choice: u16, len: usize) -> usize {
    if len == 0 {
        0
    } else {
        ((choice as usize) * len) >> 16
    }
}
