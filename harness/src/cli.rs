//! Scripted PostgreSQL client: sends arbitrary bytes, records everything it receives.

use crate::proto::{self, Framer, Msg};
use std::sync::Arc;
use std::time::{Duration, Instant};
use tokio::io::{AsyncRead, AsyncReadExt, AsyncWrite, AsyncWriteExt};
use tokio::net::TcpStream;

pub enum Stream {
    Plain(TcpStream),
    Tls(Box<tokio_rustls::client::TlsStream<TcpStream>>),
}

impl Stream {
    async fn write_all(&mut self, b: &[u8]) -> std::io::Result<()> {
        match self {
            Stream::Plain(s) => {
                s.write_all(b).await?;
                s.flush().await
            }
            Stream::Tls(s) => {
                s.write_all(b).await?;
                s.flush().await
            }
        }
    }
    async fn read(&mut self, buf: &mut [u8]) -> std::io::Result<usize> {
        match self {
            Stream::Plain(s) => s.read(buf).await,
            Stream::Tls(s) => s.read(buf).await,
        }
    }
}

struct NoVerify;
impl rustls::client::ServerCertVerifier for NoVerify {
    fn verify_server_cert(
        &self,
        _end_entity: &rustls::Certificate,
        _intermediates: &[rustls::Certificate],
        _server_name: &rustls::ServerName,
        _scts: &mut dyn Iterator<Item = &[u8]>,
        _ocsp_response: &[u8],
        _now: std::time::SystemTime,
    ) -> Result<rustls::client::ServerCertVerified, rustls::Error> {
        Ok(rustls::client::ServerCertVerified::assertion())
    }
}

#[derive(Debug, Clone, PartialEq)]
pub enum ReadEnd {
    /// ReadyForQuery seen (status byte)
    Ready(u8),
    Closed,
    Timeout,
    /// stopped because a requested message code was seen
    Code(u8),
    BadFrame(String),
}

pub struct Cli {
    pub id: u32,
    pub stream: Option<Stream>,
    framer: Framer,
    /// every byte received since connect (after TLS), in order
    pub rx_all: Vec<u8>,
    pub params: Vec<(String, String)>,
    pub backend_pid: i32,
    pub backend_key: i32,
    pub next_stmt: u32,
    pub addr: String,
    /// why the last read ended the connection (diagnostics only)
    pub last_io: String,
}

#[derive(Debug, Clone)]
pub enum AuthOutcome {
    Ok,
    /// ErrorResponse message text
    Error(String),
    Closed,
    Timeout,
    Unexpected(u8),
}

pub enum Password<'a> {
    /// compute the right md5 answer for this user/password
    Md5(&'a str, &'a str),
    /// send exactly this PasswordMessage body
    Raw(Vec<u8>),
    /// send these raw bytes instead of a PasswordMessage
    RawBytes(Vec<u8>),
    None,
}

impl Cli {
    pub async fn connect(id: u32, addr: &str, tls: bool) -> std::io::Result<Cli> {
        let s = tokio::time::timeout(Duration::from_secs(5), TcpStream::connect(addr))
            .await
            .map_err(|_| std::io::Error::new(std::io::ErrorKind::TimedOut, "connect timeout"))??;
        s.set_nodelay(true)?;
        let stream = if tls {
            let mut s = s;
            s.write_all(&proto::ssl_request()).await?;
            let mut b = [0u8; 1];
            s.read_exact(&mut b).await?;
            if b[0] != b'S' {
                return Err(std::io::Error::new(std::io::ErrorKind::Other, "tls refused"));
            }
            let cfg = rustls::ClientConfig::builder()
                .with_safe_defaults()
                .with_custom_certificate_verifier(Arc::new(NoVerify))
                .with_no_client_auth();
            let conn = tokio_rustls::TlsConnector::from(Arc::new(cfg));
            let name = rustls::ServerName::try_from("localhost").unwrap();
            let t = conn.connect(name, s).await?;
            Stream::Tls(Box::new(t))
        } else {
            Stream::Plain(s)
        };
        Ok(Cli {
            id,
            stream: Some(stream),
            framer: Framer::default(),
            rx_all: vec![],
            params: vec![],
            backend_pid: 0,
            backend_key: 0,
            next_stmt: 0,
            addr: addr.to_string(),
            last_io: String::new(),
        })
    }

    pub async fn send(&mut self, bytes: &[u8]) -> bool {
        match self.stream.as_mut() {
            Some(s) => s.write_all(bytes).await.is_ok(),
            None => false,
        }
    }

    /// Write `bytes` split at the given offsets, flushing (and yielding) between pieces.
    pub async fn send_split(&mut self, bytes: &[u8], cuts: &[usize]) -> bool {
        let mut last = 0;
        let mut cuts: Vec<usize> = cuts.iter().cloned().filter(|c| *c > 0 && *c < bytes.len()).collect();
        cuts.sort();
        cuts.dedup();
        cuts.push(bytes.len());
        for c in cuts {
            if !self.send(&bytes[last..c]).await {
                return false;
            }
            last = c;
            tokio::task::yield_now().await;
            tokio::time::sleep(Duration::from_micros(300)).await;
        }
        true
    }

    pub fn close(&mut self) {
        self.stream = None;
    }

    /// Abortive close: the peer sees a connection reset (RST) instead of an orderly end of stream, so its next write fails.
    pub fn reset(&mut self) {
        match &self.stream {
            Some(Stream::Plain(s)) => {
                let _ = s.set_linger(Some(Duration::ZERO));
            }
            Some(Stream::Tls(s)) => {
                let _ = s.get_ref().0.set_linger(Some(Duration::ZERO));
            }
            None => {}
        }
        self.stream = None;
    }

    pub fn is_open(&self) -> bool {
        self.stream.is_some()
    }

    /// Next complete message, or why there is none.
    pub async fn read_msg(&mut self, timeout: Duration) -> Result<Msg, ReadEnd> {
        let deadline = Instant::now() + timeout;
        let mut buf = vec![0u8; 65536];
        loop {
            match self.framer.next() {
                Ok(Some(m)) => return Ok(m),
                Ok(None) => {}
                Err(e) => return Err(ReadEnd::BadFrame(e)),
            }
            let s = match self.stream.as_mut() {
                Some(s) => s,
                None => return Err(ReadEnd::Closed),
            };
            let now = Instant::now();
            if now >= deadline {
                return Err(ReadEnd::Timeout);
            }
            match tokio::time::timeout(deadline - now, s.read(&mut buf)).await {
                Err(_) => return Err(ReadEnd::Timeout),
                Ok(Ok(0)) => {
                    self.last_io = "eof".into();
                    self.stream = None;
                    return Err(ReadEnd::Closed);
                }
                Ok(Err(e)) => {
                    self.last_io = format!("{:?}", e.kind());
                    self.stream = None;
                    return Err(ReadEnd::Closed);
                }
                Ok(Ok(n)) => {
                    self.rx_all.extend_from_slice(&buf[..n]);
                    self.framer.push(&buf[..n]);
                }
            }
        }
    }

    /// Read messages until ReadyForQuery (inclusive), close or timeout.
    pub async fn read_until_ready(&mut self, timeout: Duration) -> (Vec<Msg>, ReadEnd) {
        let deadline = Instant::now() + timeout;
        let mut out = vec![];
        loop {
            let left = deadline.saturating_duration_since(Instant::now());
            match self.read_msg(left).await {
                Ok(m) => {
                    let done = m.code == b'Z';
                    let st = m.body.first().cloned().unwrap_or(0);
                    out.push(m);
                    if done {
                        return (out, ReadEnd::Ready(st));
                    }
                }
                Err(e) => return (out, e),
            }
        }
    }

    /// Read until one of `codes` is seen (inclusive).
    pub async fn read_until_code(&mut self, codes: &[u8], timeout: Duration) -> (Vec<Msg>, ReadEnd) {
        let deadline = Instant::now() + timeout;
        let mut out = vec![];
        loop {
            let left = deadline.saturating_duration_since(Instant::now());
            match self.read_msg(left).await {
                Ok(m) => {
                    let c = m.code;
                    out.push(m);
                    if codes.contains(&c) {
                        return (out, ReadEnd::Code(c));
                    }
                }
                Err(e) => return (out, e),
            }
        }
    }

    /// Wait until the peer closes (or timeout); returns messages seen meanwhile.
    pub async fn read_until_closed(&mut self, timeout: Duration) -> (Vec<Msg>, ReadEnd) {
        let deadline = Instant::now() + timeout;
        let mut out = vec![];
        loop {
            let left = deadline.saturating_duration_since(Instant::now());
            match self.read_msg(left).await {
                Ok(m) => out.push(m),
                Err(e) => return (out, e),
            }
        }
    }

    /// Bytes buffered but not yet forming a message (for byte-exact comparisons).
    pub fn pending_bytes(&self) -> &[u8] {
        &self.framer.buf
    }

    /// Perform the startup exchange. `extra` = further startup parameters.
    pub async fn startup(&mut self, user: &str, database: &str, extra: &[(&str, &str)], pw: Password<'_>) -> AuthOutcome {
        let mut params: Vec<(&str, &str)> = vec![("user", user), ("database", database)];
        params.extend_from_slice(extra);
        if !self.send(&proto::startup_packet(&params)).await {
            return AuthOutcome::Closed;
        }
        self.finish_startup(pw).await
    }

    pub async fn finish_startup(&mut self, pw: Password<'_>) -> AuthOutcome {
        let t = Duration::from_secs(8);
        let mut pw = Some(pw);
        loop {
            let m = match self.read_msg(t).await {
                Ok(m) => m,
                Err(ReadEnd::Closed) => return AuthOutcome::Closed,
                Err(ReadEnd::Timeout) => return AuthOutcome::Timeout,
                Err(_) => return AuthOutcome::Closed,
            };
            match m.code {
                b'R' => {
                    let code = i32::from_be_bytes([m.body[0], m.body[1], m.body[2], m.body[3]]);
                    if code == 0 {
                        continue;
                    }
                    if code == 5 {
                        let salt = m.body[4..8].to_vec();
                        match pw.take() {
                            Some(Password::Md5(u, p)) => {
                                let body = proto::md5_password_body(u, p, &salt);
                                if !self.send(&proto::password_message(&body)).await {
                                    return AuthOutcome::Closed;
                                }
                            }
                            Some(Password::Raw(b)) => {
                                if !self.send(&proto::password_message(&b)).await {
                                    return AuthOutcome::Closed;
                                }
                            }
                            Some(Password::RawBytes(b)) => {
                                if !self.send(&b).await {
                                    return AuthOutcome::Closed;
                                }
                            }
                            _ => return AuthOutcome::Unexpected(b'R'),
                        }
                    } else {
                        return AuthOutcome::Unexpected(b'R');
                    }
                }
                b'S' => {
                    if let Some((k, n)) = proto::read_cstr(&m.body, 0) {
                        if let Some((v, _)) = proto::read_cstr(&m.body, n) {
                            self.set_param(k, v);
                        }
                    }
                }
                b'K' => {
                    self.backend_pid = i32::from_be_bytes([m.body[0], m.body[1], m.body[2], m.body[3]]);
                    self.backend_key = i32::from_be_bytes([m.body[4], m.body[5], m.body[6], m.body[7]]);
                }
                b'Z' => return AuthOutcome::Ok,
                b'E' => return AuthOutcome::Error(proto::error_message(&m.body)),
                b'N' => {}
                o => return AuthOutcome::Unexpected(o),
            }
        }
    }

    pub fn set_param(&mut self, k: String, v: String) {
        if let Some(p) = self.params.iter_mut().find(|(a, _)| *a == k) {
            p.1 = v;
        } else {
            self.params.push((k, v));
        }
    }

    pub fn param(&self, k: &str) -> Option<&str> {
        self.params.iter().find(|(a, _)| a == k).map(|x| x.1.as_str())
    }

    /// Apply ParameterStatus messages found in a reply to the client's view.
    pub fn absorb_params(&mut self, msgs: &[Msg]) {
        for m in msgs {
            if m.code == b'S' {
                if let Some((k, n)) = proto::read_cstr(&m.body, 0) {
                    if let Some((v, _)) = proto::read_cstr(&m.body, n) {
                        self.set_param(k, v);
                    }
                }
            }
        }
    }

    pub fn tag(&mut self) -> crate::sqllex::Tag {
        self.next_stmt += 1;
        crate::sqllex::Tag { client: self.id, stmt: self.next_stmt }
    }

    /// Simple query round trip.
    pub async fn simple(&mut self, sql: &str, timeout: Duration) -> (Vec<Msg>, ReadEnd) {
        if !self.send(&proto::query(sql)).await {
            return (vec![], ReadEnd::Closed);
        }
        self.read_until_ready(timeout).await
    }
}

/// First-column text of every DataRow in a reply.
pub fn row_texts(msgs: &[Msg]) -> Vec<String> {
    msgs.iter()
        .filter(|m| m.code == b'D')
        .filter_map(|m| proto::data_row_cols(&m.body).ok())
        .filter_map(|c| c.into_iter().next().flatten())
        .map(|v| String::from_utf8_lossy(&v).to_string())
        .collect()
}

/// (label, conn, tag, row index) of a mock-produced row text.
pub fn parse_row(text: &str) -> Option<(String, u64, Option<crate::sqllex::Tag>, usize)> {
    let t = text.trim_end_matches(|c| c == 'x' || c == 'y' || c == '\n');
    let mut it = t.splitn(3, '|');
    let a = it.next()?;
    let b = it.next()?;
    let c = it.next()?;
    let (label, conn) = a.split_once('#')?;
    Some((label.to_string(), conn.parse().ok()?, crate::sqllex::Tag::parse_short(b), c.parse().ok()?))
}

pub fn errors(msgs: &[Msg]) -> Vec<String> {
    msgs.iter().filter(|m| m.code == b'E').map(|m| proto::error_message(&m.body)).collect()
}

pub fn command_tags(msgs: &[Msg]) -> Vec<String> {
    msgs.iter().filter(|m| m.code == b'C').filter_map(|m| proto::read_cstr(&m.body, 0).map(|x| x.0)).collect()
}
