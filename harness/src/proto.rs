//! PostgreSQL v3 wire codec used by both the mock backend and the scripted client.
//! Written from the protocol documentation, independent of pgcat's `messages.rs`.

use md5::{Digest, Md5};

pub const PROTOCOL_V3: i32 = 196608;
pub const SSL_REQUEST: i32 = 80877103;
pub const CANCEL_REQUEST: i32 = 80877102;

#[derive(Clone, Debug, PartialEq, Eq)]
pub struct Msg {
    pub code: u8,
    /// body without the 4 length bytes
    pub body: Vec<u8>,
}

impl Msg {
    pub fn new(code: u8, body: Vec<u8>) -> Msg {
        Msg { code, body }
    }
    pub fn encode(&self) -> Vec<u8> {
        frame(self.code, &self.body)
    }
    pub fn wire_len(&self) -> usize {
        self.body.len() + 5
    }
    pub fn cstr(&self, at: usize) -> Option<(String, usize)> {
        read_cstr(&self.body, at)
    }
}

pub fn frame(code: u8, body: &[u8]) -> Vec<u8> {
    let mut v = Vec::with_capacity(body.len() + 5);
    v.push(code);
    v.extend_from_slice(&((body.len() as i32 + 4).to_be_bytes()));
    v.extend_from_slice(body);
    v
}

pub fn read_cstr(b: &[u8], at: usize) -> Option<(String, usize)> {
    if at > b.len() {
        return None;
    }
    let end = b[at..].iter().position(|c| *c == 0)? + at;
    Some((String::from_utf8_lossy(&b[at..end]).to_string(), end + 1))
}

pub fn cstr(s: &str) -> Vec<u8> {
    let mut v = s.as_bytes().to_vec();
    v.push(0);
    v
}

/// Incremental splitter of a byte stream into typed messages.
#[derive(Default)]
pub struct Framer {
    pub buf: Vec<u8>,
}

impl Framer {
    pub fn push(&mut self, b: &[u8]) {
        self.buf.extend_from_slice(b);
    }
    /// Ok(None) = need more bytes; Err = framing violation.
    pub fn next(&mut self) -> Result<Option<Msg>, String> {
        if self.buf.len() < 5 {
            return Ok(None);
        }
        let len = i32::from_be_bytes([self.buf[1], self.buf[2], self.buf[3], self.buf[4]]);
        if len < 4 {
            return Err(format!("bad length {} for code {}", len, self.buf[0]));
        }
        let total = len as usize + 1;
        if self.buf.len() < total {
            return Ok(None);
        }
        let code = self.buf[0];
        let body = self.buf[5..total].to_vec();
        self.buf.drain(..total);
        Ok(Some(Msg { code, body }))
    }
}

pub fn split_all(bytes: &[u8]) -> Result<(Vec<Msg>, Vec<u8>), String> {
    let mut f = Framer::default();
    f.push(bytes);
    let mut out = vec![];
    while let Some(m) = f.next()? {
        out.push(m);
    }
    Ok((out, f.buf))
}

// ---------------------------------------------------------------- frontend builders

pub fn startup_packet(params: &[(&str, &str)]) -> Vec<u8> {
    let mut body = vec![];
    body.extend_from_slice(&PROTOCOL_V3.to_be_bytes());
    for (k, v) in params {
        body.extend_from_slice(&cstr(k));
        body.extend_from_slice(&cstr(v));
    }
    body.push(0);
    let mut out = ((body.len() as i32 + 4).to_be_bytes()).to_vec();
    out.extend_from_slice(&body);
    out
}

pub fn ssl_request() -> Vec<u8> {
    let mut out = 8i32.to_be_bytes().to_vec();
    out.extend_from_slice(&SSL_REQUEST.to_be_bytes());
    out
}

pub fn cancel_request(pid: i32, key: i32) -> Vec<u8> {
    let mut out = 16i32.to_be_bytes().to_vec();
    out.extend_from_slice(&CANCEL_REQUEST.to_be_bytes());
    out.extend_from_slice(&pid.to_be_bytes());
    out.extend_from_slice(&key.to_be_bytes());
    out
}

pub fn query(sql: &str) -> Vec<u8> {
    frame(b'Q', &cstr(sql))
}

pub fn parse(name: &str, sql: &str, types: &[i32]) -> Vec<u8> {
    let mut b = cstr(name);
    b.extend_from_slice(&cstr(sql));
    b.extend_from_slice(&(types.len() as i16).to_be_bytes());
    for t in types {
        b.extend_from_slice(&t.to_be_bytes());
    }
    frame(b'P', &b)
}

/// params: (format code, value) ; None value = NULL
pub fn bind(
    portal: &str,
    stmt: &str,
    formats: &[i16],
    params: &[Option<Vec<u8>>],
    result_formats: &[i16],
) -> Vec<u8> {
    let mut b = cstr(portal);
    b.extend_from_slice(&cstr(stmt));
    b.extend_from_slice(&(formats.len() as i16).to_be_bytes());
    for f in formats {
        b.extend_from_slice(&f.to_be_bytes());
    }
    b.extend_from_slice(&(params.len() as i16).to_be_bytes());
    for p in params {
        match p {
            None => b.extend_from_slice(&(-1i32).to_be_bytes()),
            Some(v) => {
                b.extend_from_slice(&(v.len() as i32).to_be_bytes());
                b.extend_from_slice(v);
            }
        }
    }
    b.extend_from_slice(&(result_formats.len() as i16).to_be_bytes());
    for f in result_formats {
        b.extend_from_slice(&f.to_be_bytes());
    }
    frame(b'B', &b)
}

pub fn describe(kind: u8, name: &str) -> Vec<u8> {
    let mut b = vec![kind];
    b.extend_from_slice(&cstr(name));
    frame(b'D', &b)
}

pub fn execute(portal: &str, max_rows: i32) -> Vec<u8> {
    let mut b = cstr(portal);
    b.extend_from_slice(&max_rows.to_be_bytes());
    frame(b'E', &b)
}

pub fn close(kind: u8, name: &str) -> Vec<u8> {
    let mut b = vec![kind];
    b.extend_from_slice(&cstr(name));
    frame(b'C', &b)
}

pub fn sync() -> Vec<u8> {
    frame(b'S', &[])
}
pub fn flush() -> Vec<u8> {
    frame(b'H', &[])
}
pub fn terminate() -> Vec<u8> {
    frame(b'X', &[])
}
pub fn copy_data(d: &[u8]) -> Vec<u8> {
    frame(b'd', d)
}
pub fn copy_done() -> Vec<u8> {
    frame(b'c', &[])
}
pub fn copy_fail(msg: &str) -> Vec<u8> {
    frame(b'f', &cstr(msg))
}
pub fn password_message(p: &[u8]) -> Vec<u8> {
    frame(b'p', p)
}

// ---------------------------------------------------------------- backend builders

pub fn auth_ok() -> Vec<u8> {
    frame(b'R', &0i32.to_be_bytes())
}
pub fn auth_md5(salt: [u8; 4]) -> Vec<u8> {
    let mut b = 5i32.to_be_bytes().to_vec();
    b.extend_from_slice(&salt);
    frame(b'R', &b)
}
pub fn parameter_status(k: &str, v: &str) -> Vec<u8> {
    let mut b = cstr(k);
    b.extend_from_slice(&cstr(v));
    frame(b'S', &b)
}
pub fn backend_key_data(pid: i32, key: i32) -> Vec<u8> {
    let mut b = pid.to_be_bytes().to_vec();
    b.extend_from_slice(&key.to_be_bytes());
    frame(b'K', &b)
}
pub fn ready_for_query(status: u8) -> Vec<u8> {
    frame(b'Z', &[status])
}
pub fn command_complete(tag: &str) -> Vec<u8> {
    frame(b'C', &cstr(tag))
}
pub fn empty_query_response() -> Vec<u8> {
    frame(b'I', &[])
}
pub fn row_description(cols: &[&str]) -> Vec<u8> {
    let mut b = (cols.len() as i16).to_be_bytes().to_vec();
    for c in cols {
        b.extend_from_slice(&cstr(c));
        b.extend_from_slice(&0i32.to_be_bytes());
        b.extend_from_slice(&0i16.to_be_bytes());
        b.extend_from_slice(&25i32.to_be_bytes());
        b.extend_from_slice(&(-1i16).to_be_bytes());
        b.extend_from_slice(&(-1i32).to_be_bytes());
        b.extend_from_slice(&0i16.to_be_bytes());
    }
    frame(b'T', &b)
}
pub fn data_row(cols: &[&[u8]]) -> Vec<u8> {
    let mut b = (cols.len() as i16).to_be_bytes().to_vec();
    for c in cols {
        b.extend_from_slice(&(c.len() as i32).to_be_bytes());
        b.extend_from_slice(c);
    }
    frame(b'D', &b)
}
pub fn error_response(severity: &str, code: &str, message: &str) -> Vec<u8> {
    let mut b = vec![b'S'];
    b.extend_from_slice(&cstr(severity));
    b.push(b'V');
    b.extend_from_slice(&cstr(severity));
    b.push(b'C');
    b.extend_from_slice(&cstr(code));
    b.push(b'M');
    b.extend_from_slice(&cstr(message));
    b.push(0);
    frame(b'E', &b)
}
pub fn notice_response(message: &str) -> Vec<u8> {
    let mut b = vec![b'S'];
    b.extend_from_slice(&cstr("NOTICE"));
    b.push(b'V');
    b.extend_from_slice(&cstr("NOTICE"));
    b.push(b'C');
    b.extend_from_slice(&cstr("00000"));
    b.push(b'M');
    b.extend_from_slice(&cstr(message));
    b.push(0);
    frame(b'N', &b)
}
pub fn parse_complete() -> Vec<u8> {
    frame(b'1', &[])
}
pub fn bind_complete() -> Vec<u8> {
    frame(b'2', &[])
}
pub fn close_complete() -> Vec<u8> {
    frame(b'3', &[])
}
pub fn no_data() -> Vec<u8> {
    frame(b'n', &[])
}
pub fn portal_suspended() -> Vec<u8> {
    frame(b's', &[])
}
pub fn parameter_description(types: &[i32]) -> Vec<u8> {
    let mut b = (types.len() as i16).to_be_bytes().to_vec();
    for t in types {
        b.extend_from_slice(&t.to_be_bytes());
    }
    frame(b't', &b)
}
pub fn copy_in_response() -> Vec<u8> {
    frame(b'G', &[0, 0, 1, 0, 0])
}
pub fn copy_out_response() -> Vec<u8> {
    frame(b'H', &[0, 0, 1, 0, 0])
}

// ---------------------------------------------------------------- decoding helpers

/// Fields of an ErrorResponse / NoticeResponse body.
pub fn error_fields(body: &[u8]) -> Vec<(u8, String)> {
    let mut out = vec![];
    let mut i = 0;
    while i < body.len() && body[i] != 0 {
        let k = body[i];
        if let Some((s, n)) = read_cstr(body, i + 1) {
            out.push((k, s));
            i = n;
        } else {
            break;
        }
    }
    out
}

pub fn error_message(body: &[u8]) -> String {
    error_fields(body)
        .into_iter()
        .find(|(k, _)| *k == b'M')
        .map(|(_, v)| v)
        .unwrap_or_default()
}
pub fn error_code(body: &[u8]) -> String {
    error_fields(body)
        .into_iter()
        .find(|(k, _)| *k == b'C')
        .map(|(_, v)| v)
        .unwrap_or_default()
}

/// Columns of a DataRow body (None = NULL). Err on malformed.
pub fn data_row_cols(body: &[u8]) -> Result<Vec<Option<Vec<u8>>>, String> {
    if body.len() < 2 {
        return Err("short DataRow".into());
    }
    let n = i16::from_be_bytes([body[0], body[1]]);
    let mut i = 2;
    let mut out = vec![];
    for _ in 0..n {
        if i + 4 > body.len() {
            return Err("truncated DataRow".into());
        }
        let l = i32::from_be_bytes([body[i], body[i + 1], body[i + 2], body[i + 3]]);
        i += 4;
        if l < 0 {
            out.push(None);
        } else {
            let l = l as usize;
            if i + l > body.len() {
                return Err("truncated DataRow col".into());
            }
            out.push(Some(body[i..i + l].to_vec()));
            i += l;
        }
    }
    if i != body.len() {
        return Err("trailing bytes in DataRow".into());
    }
    Ok(out)
}

#[derive(Clone, Debug)]
pub struct ParseMsg {
    pub name: String,
    pub sql: String,
    pub types: Vec<i32>,
}
pub fn decode_parse(body: &[u8]) -> Option<ParseMsg> {
    let (name, i) = read_cstr(body, 0)?;
    let (sql, i) = read_cstr(body, i)?;
    if i + 2 > body.len() {
        return None;
    }
    let n = i16::from_be_bytes([body[i], body[i + 1]]);
    let mut types = vec![];
    let mut j = i + 2;
    for _ in 0..n.max(0) {
        if j + 4 > body.len() {
            return None;
        }
        types.push(i32::from_be_bytes([body[j], body[j + 1], body[j + 2], body[j + 3]]));
        j += 4;
    }
    if j != body.len() {
        return None;
    }
    Some(ParseMsg { name, sql, types })
}

#[derive(Clone, Debug)]
pub struct BindMsg {
    pub portal: String,
    pub stmt: String,
    pub rest: Vec<u8>,
}
pub fn decode_bind(body: &[u8]) -> Option<BindMsg> {
    let (portal, i) = read_cstr(body, 0)?;
    let (stmt, i) = read_cstr(body, i)?;
    Some(BindMsg { portal, stmt, rest: body[i..].to_vec() })
}

pub fn md5_hex(parts: &[&[u8]]) -> String {
    let mut h = Md5::new();
    for p in parts {
        h.update(p);
    }
    format!("{:x}", h.finalize())
}

/// "md5" + md5(md5(password + user) + salt), NUL-terminated, as the PasswordMessage body.
pub fn md5_password_body(user: &str, password: &str, salt: &[u8]) -> Vec<u8> {
    let inner = md5_hex(&[password.as_bytes(), user.as_bytes()]);
    md5_second_pass(&inner, salt)
}
pub fn md5_second_pass(inner_hex: &str, salt: &[u8]) -> Vec<u8> {
    let outer = md5_hex(&[inner_hex.as_bytes(), salt]);
    let mut v = format!("md5{}", outer).into_bytes();
    v.push(0);
    v
}
