#![allow(dead_code, unused_imports, unused_variables, clippy::all)]
mod cli;
mod engine;
mod mock;
mod pgc;
mod prog;
mod props;
mod proto;
mod refhash;
mod sqllex;
mod wire;

use engine::{PartReport, Tier};
use serde_json::{json, Value};
use std::time::Instant;

fn usage() -> ! {
    eprintln!("usage: pgverif run --prop <ID> --tier <quick|thorough> [--seed N] | pgverif replay --prop <ID> --file <path> | pgverif list");
    std::process::exit(2);
}

fn main() {
    let args: Vec<String> = std::env::args().collect();
    if args.len() < 2 {
        usage();
    }
    let mut prop = String::new();
    let mut tier = Tier::Quick;
    let mut seed: u64 = std::env::var("VERIF_SEED").ok().and_then(|s| s.parse().ok()).unwrap_or(20260925);
    let mut file: Option<String> = None;
    let mut i = 2;
    while i < args.len() {
        match args[i].as_str() {
            "--prop" => {
                prop = args.get(i + 1).cloned().unwrap_or_default();
                i += 2;
            }
            "--tier" => {
                tier = match args.get(i + 1).map(|s| s.as_str()) {
                    Some("thorough") => Tier::Thorough,
                    _ => Tier::Quick,
                };
                i += 2;
            }
            "--seed" => {
                seed = args.get(i + 1).and_then(|s| s.parse().ok()).unwrap_or(seed);
                i += 2;
            }
            "--file" => {
                file = args.get(i + 1).cloned();
                i += 2;
            }
            _ => usage(),
        }
    }
    // pgcat's command regexes are process-global and must be initialised once, as main() does
    #[cfg(feature = "lib")]
    pgcat::query_router::QueryRouter::setup();
    // keep panics of library code under test quiet but visible to catch_unwind
    std::panic::set_hook(Box::new(|_| {}));

    match args[1].as_str() {
        "list" => {
            for p in props::ALL {
                println!("{}", p);
            }
        }
        "run" | "replay" => {
            let start = Instant::now();
            let replay = if args[1] == "replay" { Some(file.clone().unwrap_or_else(|| usage())) } else { None };
            let reports = match props::dispatch(&prop, tier, seed, replay.as_deref()) {
                Some(r) => r,
                None => {
                    eprintln!("unknown property {}", prop);
                    std::process::exit(2);
                }
            };
            if replay.is_some() && reports.is_empty() {
                // nothing was executed: the file names no part of this property ("part": ...), so it proves nothing either way
                eprintln!("HARNESS-ERROR property={} replay file {:?} names no part of this property; nothing was run", prop, replay);
                std::process::exit(2);
            }
            let code = finish(&prop, tier, seed, reports, start.elapsed().as_secs_f64(), replay.is_some());
            let _ = std::fs::remove_dir_all(format!("/verif/work/{}", prop));
            std::process::exit(code);
        }
        _ => usage(),
    }
}

fn finish(prop: &str, tier: Tier, seed: u64, reports: Vec<PartReport>, wall: f64, is_replay: bool) -> i32 {
    let mut violations = 0;
    let mut harness_errors = vec![];
    let mut evaluations = 0u64;
    let mut distinct = 0u64;
    let mut samples: Vec<Value> = vec![];
    let mut parts: Vec<Value> = vec![];
    let mut rules = vec![];
    let mut excluded_known = 0;
    let mut inconclusive = 0;
    let mut exhaustive_any = false;
    for r in &reports {
        for l in &r.known_lines {
            println!("{}", l);
        }
        for (sig, detail, path) in &r.violations {
            violations += 1;
            println!("VIOLATION property={} replay={}", prop, path);
            println!("  part={} signature={}", r.name, sig);
            for line in detail.lines().take(40) {
                println!("  {}", line);
            }
        }
        if let Some(e) = &r.harness_error {
            harness_errors.push(format!("{}: {}", r.name, e));
        }
        evaluations += r.evaluations.max(r.sub_evaluations);
        distinct += r.distinct_nontrivial;
        excluded_known += r.excluded_known + r.known_hits.values().sum::<u64>();
        inconclusive += r.inconclusive;
        exhaustive_any |= r.exhaustive;
        rules.push(format!("[{}] {}", r.name, r.rule));
        for s in r.samples.iter().take(3) {
            samples.push(json!({"part": r.name, "case": s}));
        }
        parts.push(json!({
            "part": r.name,
            "cases": r.evaluations,
            "sub_evaluations": r.sub_evaluations,
            "nontrivial": r.nontrivial,
            "distinct_nontrivial": r.distinct_nontrivial,
            "class_histogram": r.labels,
            "known_finding_hits": r.known_hits,
            "excluded_known": r.excluded_known,
            "inconclusive": r.inconclusive,
            "inconclusive_samples": r.inconclusive_samples,
            "exhaustive": r.exhaustive,
            "wall_s": r.wall_s,
        }));
        eprintln!(
            "[{} {}] cases={} sub={} nontrivial={} distinct={} known_hits={:?} inconclusive={} wall={:.1}s labels={:?}",
            prop, r.name, r.evaluations, r.sub_evaluations, r.nontrivial, r.distinct_nontrivial, r.known_hits, r.inconclusive, r.wall_s, r.labels
        );
    }
    if !is_replay {
        let ev = json!({
            "property_id": prop,
            "tier": tier.name(),
            "seed": seed,
            "level": "exploration",
            "coverage": {
                "evaluations": evaluations,
                "distinct_nontrivial": distinct,
                "rule": rules.join(" || "),
                "samples": samples,
                "parts": parts,
                "excluded_known": excluded_known,
                "inconclusive_stalls": inconclusive,
                "exhaustive": false,
                "exhaustive_subdomain": exhaustive_any,
            },
            "assumptions": [
                "mock PostgreSQL backend follows the v3 protocol documentation for the messages pgcat keys on (command tags, ReadyForQuery status, ParameterStatus, error codes)",
                "reference models are written from the property text and PostgreSQL documentation, not from pgcat's code",
                "generated cases are a pure function of VERIF_SEED; pgcat's own randomness and scheduling are sampled, not controlled",
            ],
            "wall_s": wall,
            "violations": violations,
            "harness_errors": harness_errors,
        });
        let _ = std::fs::create_dir_all("/verif/evidence");
        let _ = std::fs::write(format!("/verif/evidence/{}.json", prop), serde_json::to_string_pretty(&ev).unwrap());
    }
    if violations > 0 {
        return 1;
    }
    if !harness_errors.is_empty() {
        for e in harness_errors {
            eprintln!("HARNESS-ERROR property={} {}", prop, e);
        }
        return 2;
    }
    println!("OK property={} tier={} evaluations={} distinct_nontrivial={}", prop, tier.name(), evaluations, distinct);
    0
}
