#!/bin/bash
# vseed.sh <ID> : verify both seeds of a property on the current /repo HEAD in its scratch worktree
id=$1; wt=/tmp/seed/$id; out=/tmp/seed/$id.out
/verif/seedtool.sh prep $id >/dev/null
/verif/seedtool.sh build $id "" base >/dev/null
for n in 1 2; do
  [ -f $out/change$n/patch.diff ] || continue
  /verif/seedtool.sh build $id $out/change$n/patch.diff ch$n >/dev/null || { echo "change$n: patch does not apply on HEAD"; continue; }
  demo=$(ls $out/change$n/demo.py 2>/dev/null)
  if [ -n "$demo" ]; then
    PGCAT_BIN=$wt/target/pgcat.base timeout 300 python3 $demo $wt/target/pgcat.base > $out/v$n.base.txt 2>&1; b=$?
    PGCAT_BIN=$wt/target/pgcat.ch$n timeout 300 python3 $demo $wt/target/pgcat.ch$n > $out/v$n.ch.txt 2>&1; c=$?
    echo "change$n: demo base exit=$b changed exit=$c"
  else
    echo "change$n: non-python demo: $(ls $out/change$n)"
  fi
  /verif/seedtool.sh test $id $out/change$n/patch.diff 2>&1 | grep -E "test result: .* [0-9]+ passed" | sed "s/^/change$n: /"
done
