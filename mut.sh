#!/bin/bash
# usage: ./mut.sh <patch> <ID> [tier]   -- apply a patch to /repo, run the check, always undo the patch
cd /verif
git -C /repo apply "$1" || { echo "patch does not apply"; exit 3; }
./check "$2" "${3:-quick}"; rc=$?
git -C /repo checkout -- .
./check build >/dev/null 2>&1
echo "mut.sh: $1 on $2 -> exit $rc"
exit $rc
