#!/bin/bash
# seedround.sh <ID> : verify both freshly written seeds of /tmp/seed/<ID>.out on the current HEAD, then run the check against each
id=$1
/verif/vseed.sh $id 2>&1 | grep -E "demo base|passed; 3 failed|does not apply|non-python"
for n in 1 2; do
  p=/tmp/seed/$id.out/change$n/patch.diff
  [ -f $p ] || continue
  echo "--- $id change$n: check"
  /verif/mut.sh $p $id quick 2>&1 | grep -E "VIOLATION|^OK|signature|mut.sh|BUILD|HARNESS|KNOWN" | cut -c1-260 | head -8
done
