#!/bin/bash
# Seed verification helper (scratch worktrees only, never /repo):
#   seedtool.sh prep <ID>                  reset worktree /tmp/seed/<ID> to /repo HEAD, clean
#   seedtool.sh build <ID> [patch]         (apply patch,) cargo build --offline (debug) -> prints binary path
#   seedtool.sh test <ID> <patch>          apply patch, run the repo test-suite, print pass/fail counts, undo
set -u
cmd=$1; id=$2; wt=/tmp/seed/$id
case $cmd in
 prep) git -C $wt checkout -q -- . ; git -C $wt checkout -q --detach $(git -C /repo rev-parse HEAD); git -C $wt log --oneline | head -1;;
 build) git -C $wt checkout -q -- .; if [ -n "${3:-}" ]; then git -C $wt apply "$3" || exit 3; fi
        (cd $wt && cargo build --offline 2>&1 | tail -1); cp $wt/target/debug/pgcat $wt/target/pgcat.${4:-cur}; git -C $wt checkout -q -- .; echo $wt/target/pgcat.${4:-cur};;
 test) git -C $wt checkout -q -- .; git -C $wt apply "$3" || exit 3
       (cd $wt && cargo test --workspace --no-fail-fast --offline 2>&1 | grep -E "^test result|FAILED|error(\[|:)" | sort | uniq -c); git -C $wt checkout -q -- . ;;
esac
