#!/bin/bash
# regress_seeds.sh [ID-prefix...] : apply every kept seed to /repo, run its property's quick check, expect exit 1; always restores /repo.
# Results: /verif/work/regress_seeds.log (one line per seed). Takes 2-3 hours for all seeds.
cd /verif
mkdir -p work
log=work/regress_seeds.log
: > $log
pat="${*:-C}"
for d in seeded/C*; do
  s=$(basename $d); id=${s%%-*}
  ok=0; for p in $pat; do case $s in $p*) ok=1;; esac; done; [ $ok = 1 ] || continue
  if ! git -C /repo apply --check /verif/$d/patch.diff 2>/dev/null; then echo "$s NOAPPLY" >> $log; continue; fi
  git -C /repo apply /verif/$d/patch.diff
  out=$(./check $id quick 2>&1); rc=$?
  git -C /repo checkout -- .
  sig=$(echo "$out" | grep -m1 "signature=" | sed 's/.*signature=//' | cut -c1-90)
  echo "$s rc=$rc $sig" >> $log
done
./check build >/dev/null 2>&1
echo done >> $log
