#!/bin/bash
# Builds the framework offline from files on disk: pgcat (hooks on) and the harness.
set -u
cd /verif
export CARGO_NET_OFFLINE=true
mkdir -p /verif/target /verif/evidence /verif/replays
RUSTFLAGS="--cfg pgcat_verif" cargo build --release --manifest-path /repo/Cargo.toml --bin pgcat --target-dir /verif/target/repo || exit 1
( cd /verif/harness && RUSTFLAGS="--cfg pgcat_verif" cargo build --release --target-dir /verif/target/harness ) || exit 1
if [ -d /verif/fuzz ] && [ -x /verif/fuzz/build.sh ]; then /verif/fuzz/build.sh || exit 1; fi
echo "setup ok"
