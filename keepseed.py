#!/usr/bin/env python3
"""keepseed.py <ID> <n> <caught_by|MISSED> <needs...>  -- copy a verified seed from /tmp/seed/<ID>.out/change<n> to /verif/seeded/<ID>-<n>/ with meta.json"""
import sys, os, shutil, json, glob, subprocess
pid, n, caught = sys.argv[1], sys.argv[2], sys.argv[3]
needs = " ".join(sys.argv[4:])
src = f"/tmp/seed/{pid}.out/change{n}"
dst = f"/verif/seeded/{pid}-{os.environ.get('DEST_N', n)}"
os.makedirs(dst, exist_ok=True)
for f in glob.glob(src + "/*"):
    b = os.path.basename(f)
    if os.path.isfile(f) and os.path.getsize(f) < 400_000 and (b.startswith("demo") and not b.endswith((".out", ".txt", ".log")) or b in ("patch.diff", "NOTES.md")):
        shutil.copy(f, dst)
head = subprocess.run(["git", "-C", "/repo", "rev-parse", "--short", "HEAD"], capture_output=True, text=True).stdout.strip()
meta = {
    "property": pid,
    "change": int(os.environ.get("DEST_N", n)),
    "breaks": open(f"/tmp/seed/{pid}.prop.txt").read().split("\n")[0],
    "needs_to_manifest": needs,
    "verified_on_repo_head": head,
    "what_i_ran": [
        f"scratch worktree /tmp/seed/{pid} reset to /repo HEAD {head}; git apply patch.diff; cargo build --offline; cargo test --workspace --no-fail-fast --offline -> 35 passed, only the 3 dns_cache tests (+1 dns_cache doctest) fail as on the unchanged tree",
        "demo run against the unchanged binary -> PASS (exit 0); against the patched binary -> FAIL (exit 1)",
        f"git -C /repo apply patch.diff; ./check {pid} quick; git -C /repo checkout -- .",
    ],
    "detected_by": caught,
}
json.dump(meta, open(dst + "/meta.json", "w"), indent=1)
print("kept", dst, os.listdir(dst))
