#!/bin/bash
# loadrun.sh <busy-loops> <ID> [tier] [seeds...] : run a check while N busy loops compete for the CPUs (flakiness hunt)
n=$1; id=$2; tier=${3:-quick}; shift 3 2>/dev/null
seeds="${*:-1}"
pids=()
for i in $(seq $n); do ( exec -a pgverif-load sh -c 'while :; do :; done' ) & pids+=($!); done
trap 'kill "${pids[@]}" 2>/dev/null' EXIT
for s in $seeds; do
  VERIF_SEED=$s /verif/check $id $tier 2>&1 | grep -E "^OK|VIOLATION|signature|HARNESS|BUILD" | cut -c1-300 | sed "s/^/[seed $s] /"
done
