import sys,json
pid=sys.argv[1]
hint=sys.argv[2] if len(sys.argv)>2 else ""
prop=open(f"/tmp/seed/{pid}.prop.txt").read()
print(f"""You are helping evaluate a verification framework by writing realistic *breaking changes* (seeded defects) for an open-source project. Work ONLY inside your scratch git worktree `/tmp/seed/{pid}` (a worktree of postgresml/pgcat, a Tokio-based PostgreSQL connection pooler written in Rust) and write your results to `/tmp/seed/{pid}.out/`. Do NOT read, list or use anything under `/verif`, and do not touch `/repo` or other `/tmp/seed/*` directories. There is no network; build offline (`cargo build --offline`, `cargo test --offline`). No PostgreSQL is installed; python3 is available.

The semantic property of pgcat that must be BROKEN by your change:

---
{prop}---

Task: produce TWO independent changes (different mechanisms / code sites) to pgcat's source, each of which
1. breaks the property above,
2. still compiles, and keeps the existing test suite passing (`cargo test --offline` in the worktree: 35 tests pass; exactly 3 `dns_cache` tests plus one dns_cache doctest fail already on the unchanged tree because there is no network — that is expected, ignore those),
3. looks like a plausible mistake or well-meant refactor a maintainer could merge (no comments announcing the bug, no dead giveaways),
4. needs something SPECIFIC to manifest — a particular interleaving, a fault at a particular point, a multi-step sequence, an unusual input, a particular configuration, or two cooperating sites that each look fine alone — NOT something ordinary use would expose at once (e.g. do not simply break every query).

For each change also write a DEMONSTRATION: a test or small program that FAILS with the change and PASSES on the unchanged tree. Since there is no PostgreSQL, the demonstration may be a Rust test (unit test or `tests/*.rs` integration test, possibly using fake backend sockets), or a python3 script that starts the built `pgcat` binary with a config pointing at a tiny fake PostgreSQL backend implemented in the script (speaking just enough of protocol v3: startup -> AuthenticationOk, ParameterStatus, BackendKeyData, ReadyForQuery; Query -> RowDescription/DataRow/CommandComplete/ReadyForQuery with the correct transaction status byte) and drives client sockets. Actually run it both ways and record the outputs.

Deliver in `/tmp/seed/{pid}.out/`:
- `change1/patch.diff` and `change2/patch.diff` (output of `git diff` against the worktree HEAD, source changes only — keep the demo out of the patch),
- `change1/demo.*` and `change2/demo.*` (the demonstration, with a header comment saying exactly how to run it),
- `change1/NOTES.md`, `change2/NOTES.md`: what the change does, why it breaks the property, what exactly is needed for it to manifest, the commands you ran and their observed results (tests passing with the change; demo failing with the change and passing without).
Leave the worktree with NO source modifications at the end (`git -C /tmp/seed/{pid} checkout -- .`; untracked demo files may stay). Build output may stay in the worktree's `target/`.

{hint}Your final message should be a brief summary of the two changes and whether each was confirmed.""")
