#!/usr/bin/env python3
"""Regenerates /verif/MANIFEST.json from the table below (kept here so the manifest stays valid and uniform)."""
import json

CLAIMED = {
    # id: (engine, technique, level text, design_ref, note)
    "C06": ("lib+wire",
            "differential PBT vs an independent PostgreSQL hash transcription (2^32 word sweep in thorough) + proptest over routing paths",
            "Generated-input search: Sharder::shard is compared with a transcription of hashfn.c/partbounds.c validated on real-PostgreSQL vectors; the 32-bit word the hash consumes is swept exhaustively in the thorough tier (every 256th word in quick), the 64->32 fold, the modulus and the SHA1 rule on millions of generated (key,n); every routing path (SET SHARDING KEY, comment regex, automatic-sharding-key literal in 10 statement shapes, Bind text/binary) must select the reference partition.",
            "DESIGN.md §4 C06",
            "Trusted: refhash.rs (self-tested against the repository's real-PostgreSQL MOD 5 vectors at every run), proptest. Statement shapes are a fixed family, not a full grammar."),
}

CLAIMED["C01"] = ("wire",
    "model-based PBT over generated multi-client histories against the real binary; history invariant over the mock backends' logs",
    "Generated-input search at system level: 2..5 scripted clients run generated transactions (simple, multi-statement, BEGIN..COMMIT/ROLLBACK incl. failed transactions, extended batches with portal suspension, COPY IN/OUT/FAIL) concurrently against the real pgcat binary and mock PostgreSQL backends; the oracle checks on the backends' own logs that between messages of different clients on one server connection the session was idle (no open transaction, COPY or unsynced batch; session mode: previous client gone), that each client transaction stayed on one connection, and that every row a client read carries its own statement tag and the id of the connection that executed it.",
    "DESIGN.md §4 C01",
    "Trusted: mock backend (protocol-v3 session state machine), scripted client codec. Interleavings inside pgcat's runtime are sampled (delays, worker_threads 1/2/4), not enumerated.")

CLAIMED["C02"] = ("wire",
    "fault-injection PBT: generated victim program x server state x exit point, probe client; oracle = mock backend's own session state at hand-over",
    "Generated-input search over the product {session state created outside a transaction} x {server state at the exit point: idle, in/failed transaction, COPY IN open, COPY OUT unread, reply pending, unsynced batch} x {exit: finish, Terminate, socket drop at a boundary or after k bytes of a message, malformed Close/Describe/Bind/Parse, unknown statement, unknown message type, idle-in-transaction timeout, statement timeout}, with and without statement caching, against the real binary with pool_size=1; a probe client then uses the pool and the mock backend reports its own session state (transaction status, COPY, GUC table, role, prepared statements) at the first message of the new client; the probe must also read exactly its own rows.",
    "DESIGN.md §4 C02, Appendix A.2",
    "Trusted: mock backend session semantics (SET rolled back with the transaction, RESET ALL/DEALLOCATE ALL/RESET ROLE, FATAL on non-COPY message during COPY IN as PostgreSQL >= 14). 'Kicked by shutdown' exits are exercised under C17, checkout-failure kicks under C04.")

NOT_YET = {}

props = [json.loads(l) for l in open('/verif/properties.jsonl')]
checks = []
na = []
for p in props:
    pid = p['id']
    if pid in CLAIMED:
        eng, tech, text, ref, note = CLAIMED[pid]
        checks.append({
            "property_id": pid,
            "quick_cmd": f"./check {pid} quick",
            "thorough_cmd": f"./check {pid} thorough",
            "evidence_file": f"/verif/evidence/{pid}.json",
            "replay_cmd_template": f"./check {pid} --replay {{path}}",
            "engine": eng,
            "level_claimed": {"category": "exploration", "text": text, "design_ref": ref},
            "level_note": note,
            "technique": tech,
        })
    else:
        na.append({"property_id": pid, "reason": NOT_YET.get(pid, "check under construction in this session: no registered check yet, so the property is not claimed (technique applies; see DESIGN.md §4)")})

m = {
    "version": 1,
    "setup_cmd": "./setup.sh",
    "hooks": {
        "guard": "pgcat_verif",
        "enable": "RUSTFLAGS=\"--cfg pgcat_verif\" (set by ./check and ./setup.sh for both the pgcat binary and the harness build)",
        "baseline_off_cmd": "cd /repo && (cargo nextest run --workspace --no-fail-fast --test-threads 8 --offline || cargo test --workspace --no-fail-fast --offline)",
        "source_commits": [],
        "add_only": True,
    },
    "engines": [
        {"name": "wire", "path": "/verif/harness", "serves_properties": sorted(k for k,v in CLAIMED.items() if "wire" in v[0]), "kind_free_text": "real pgcat release binary (rebuilt from /repo) + scriptable mock PostgreSQL backends + scripted clients; proptest-generated scenarios, history oracles"},
        {"name": "lib", "path": "/verif/harness", "serves_properties": sorted(k for k,v in CLAIMED.items() if "lib" in v[0]), "kind_free_text": "proptest against the pgcat library API with independent reference models"},
    ],
    "checks": checks,
    "not_applicable": na,
    "notes": "Every check: ./check <ID> <tier> rebuilds pgcat and the harness from /repo's working tree (cfg pgcat_verif on), runs generated cases as a pure function of VERIF_SEED, writes /verif/evidence/<ID>.json, prints VIOLATION/KNOWN-FINDING lines. Exit 2 = harness problem (inconclusive), never a violation.",
}
json.dump(m, open('/verif/MANIFEST.json', 'w'), indent=1)
print("claimed:", [c['property_id'] for c in checks])
